#!/bin/bash
# tools/killmatrix.sh [tier] [names...]: runs every check against every seeded change on a scratch copy of /repo
# (VERIF_REPO), never touching /repo itself. Output: seeded/KILLMATRIX.<tier>.txt
cd "$(dirname "$0")/.."
tier=${1:-quick}; shift
names=${@:-$(ls seeded | grep -v KILLMATRIX)}
scratch=/tmp/kmrepo.$$
out=seeded/KILLMATRIX.$tier.txt
for name in $names; do
  rm -rf $scratch; mkdir -p $scratch
  rsync -a --exclude .git /repo/ $scratch/
  (cd $scratch && patch -p1 -s < /verif/seeded/$name/patch.diff) || { echo "$name: patch failed"; continue; }
  line="$name:"
  for p in C01 C02 C03 C04 C05 C06 C07 C08 C09 C10 C11 C12 C13 C14 C15 C16 C17 C18 C19 C20; do
    VERIF_REPO=$scratch ./check $p $tier >/dev/null 2>&1; rc=$?
    if [ $rc -eq 1 ]; then line="$line $p"; elif [ $rc -ne 0 ]; then line="$line $p(rc=$rc)"; fi
  done
  echo "$line" | tee -a $out.tmp
done
rm -rf $scratch; rm -f .build/*.$(echo "$scratch" | md5sum | cut -c1-8)*
touch $out
for name in $names; do grep -v "^$name:" $out > $out.keep; mv $out.keep $out; done
cat $out.tmp >> $out; sort -o $out $out; rm -f $out.tmp
