#!/bin/bash
# tools/sweep.sh <tier> <seed>...   runs every check and prints verdict lines that are not OK / KNOWN-FINDING
cd "$(dirname "$0")/.."
tier=$1; shift
for seed in "$@"; do
  for p in C01 C02 C03 C04 C05 C06 C07 C08 C09 C10 C11 C12 C13 C14 C15 C16 C17 C18 C19 C20; do
    out=$(VERIF_SEED=$seed ./check $p $tier 2>&1); rc=$?
    if [ $rc -ne 0 ]; then echo "### seed=$seed $p rc=$rc"; echo "$out" | grep -v '^KNOWN-FINDING' | cut -c1-600 | head -20; fi
    echo "$out" | grep '^OK' | sed "s/^/seed=$seed /"
  done
done
