#!/usr/bin/env python3
"""Regenerates MANIFEST.json from the table below (keeps it schema-valid)."""
import json, subprocess, os
HERE = os.path.dirname(os.path.dirname(os.path.abspath(__file__)))
T = {
 "C01": ("metamorphic round-trip monitor (parse -> SQL() -> parse), equality modulo positions", "3.C01"),
 "C02": ("reference-model monitor: generator token list vs re-lexed SQL()", "3.C02"),
 "C03": ("crash/panic monitor + logical-clock step budget (hook H1) + typed-error checker, child process per shard with journal", "3.C03"),
 "C04": ("totality monitor over reflectively enumerated nodes", "3.C04"),
 "C05": ("invariant monitor: node ranges vs token boundaries, nesting, order", "3.C05"),
 "C06": ("metamorphic sub-range re-parse / splice monitor", "3.C06"),
 "C07": ("reference-model monitor: generating operator tree vs parsed tree", "3.C07"),
 "C08": ("acceptance + differential (specific entry vs ParseStatement) monitor over a documentation-derived grammar", "3.C08"),
 "C09": ("implication checker over (tree, error) + trailing-junk probe", "3.C09"),
 "C10": ("conservation monitor: Bad-node tokens vs input tokens (hook H2)", "3.C10"),
 "C11": ("differential monitor: list parse vs split + single parse, position shift", "3.C11"),
 "C12": ("partition checker vs independent reference lexer", "3.C12"),
 "C13": ("tiling / monotonicity invariant monitor over token streams", "3.C13"),
 "C14": ("differential monitor vs independently written reference lexer (three-valued)", "3.C14"),
 "C15": ("right-inverse monitor: quote then lex", "3.C15"),
 "C16": ("metamorphic re-spelling monitor (trivia, keyword case) with re-lex guard", "3.C16"),
 "C17": ("online trace checker of Visitor callbacks vs reflective model", "3.C17"),
 "C18": ("Go race detector + determinism / aliasing / table-digest monitors (hook H3)", "3.C18"),
 "C19": ("differential: regenerated vs committed sources; poslang interpreter vs compiled Pos/End", "3.C19"),
 "C20": ("reference-model monitor for line/column/excerpt", "3.C20"),
}
claimed = [l.strip() for l in open(os.path.join(HERE, "tools", "claimed.txt")) if l.strip() and not l.startswith("#")]
hooks_commits = subprocess.run(["git", "-C", "/repo", "log", "--format=%H", "--grep=^verif hooks"], capture_output=True, text=True).stdout.split()
checks = []
for pid in sorted(T):
    if pid not in claimed:
        continue
    tech, ref = T[pid]
    checks.append({
        "property_id": pid,
        "quick_cmd": f"./check {pid} quick",
        "thorough_cmd": f"./check {pid} thorough",
        "evidence_file": f"/verif/evidence/{pid}.json",
        "replay_cmd_template": "./check --replay {path}",
        "engine": "vworker",
        "level_claimed": {
            "category": "exploration",
            "text": "Runtime monitoring: the real code (rebuilt from /repo's working tree with the verif tag) is executed on generated, hostile and corpus workloads and an oracle written independently of the code observes every execution. 'Held' means held on the executions listed in the evidence file (finite sub-spaces that are enumerated completely are flagged there); it is not a proof for all inputs.",
            "design_ref": "DESIGN.md section " + ref,
        },
        "level_note": "Trusted: the Go toolchain, reflection over the exported AST fields, my reference models (reference lexer, grammar G, operator table, line/column model). Bounds: generated / mutated inputs <= 16 KiB, nesting <= 512; flat families (wide lists, long statement lists, long operator chains, long tokens, many-line texts) up to about 1 MiB. Known findings are listed in KNOWN_FINDINGS.txt and reported as KNOWN-FINDING lines.",
        "technique": tech,
    })
na = [{"property_id": pid, "reason": "check not registered yet in this commit (implementation in progress; see DESIGN.md)"} for pid in sorted(T) if pid not in claimed]
m = {
 "version": 1,
 "setup_cmd": "bash -c 'export GOFLAGS=-mod=mod GOPROXY=off GOSUMDB=off GOTOOLCHAIN=local; mkdir -p .build run evidence replay && go build -tags verif -o .build/vworker ./cmd/vworker && go build -race -tags verif -o .build/vworker-race ./cmd/vworker'",
 "hooks": {
   "guard": "verif",
   "enable": "go build -tags verif (the check script builds cmd/vworker, which imports /repo through a replace directive, with this tag)",
   "baseline_off_cmd": "cd /repo && GOFLAGS=-mod=mod GOPROXY=off GOSUMDB=off GOTOOLCHAIN=local go test -vet=off -count=1 ./...",
   "source_commits": hooks_commits,
   "add_only": True,
 },
 "engines": [{"name": "vworker", "path": "cmd/vworker", "serves_properties": claimed, "kind_free_text": "Go driver/worker: shards a deterministic case list over child processes, each journalling the current case; monitors in internal/mon"}],
 "checks": checks,
 "not_applicable": na,
 "notes": "All checks: ./check <id> <quick|thorough>; VERIF_SEED selects the random part of the workloads. Exit 0 held / 1 VIOLATION / 2 INCONCLUSIVE.",
}
json.dump(m, open(os.path.join(HERE, "MANIFEST.json"), "w"), indent=1)
print("claimed:", claimed)
