#!/bin/bash
# tools/targets_run.sh [tier] [names...]: for every seeded change, runs the check of the property it was written against
# on a scratch copy of /repo with the patch applied. Output: seeded/TARGETS.<tier>.txt (name: caught | MISSED(rc)).
cd "$(dirname "$0")/.."
tier=${1:-quick}; shift
names=${@:-$(ls -d seeded/C??-? | xargs -n1 basename)}
out=seeded/TARGETS.$tier.txt
touch $out
scratch=/tmp/tgt.$$
for name in $names; do
  p=${name%%-*}
  rm -rf $scratch; mkdir -p $scratch; rsync -a --exclude .git /repo/ $scratch/
  (cd $scratch && patch -p1 -s < /verif/seeded/$name/patch.diff) || { echo "$name: patch failed"; continue; }
  VERIF_REPO=$scratch ./check $p $tier >/dev/null 2>&1; rc=$?
  grep -v "^$name:" $out > $out.keep; mv $out.keep $out
  if [ $rc -eq 1 ]; then echo "$name: caught by $p" | tee -a $out; else echo "$name: MISSED by $p (rc=$rc)" | tee -a $out; fi
done
sort -o $out $out
rm -rf $scratch; rm -f .build/*.$(echo "$scratch" | md5sum | cut -c1-8)*
