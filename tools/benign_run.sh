#!/bin/bash
# tools/benign_run.sh [tier]: every check must stay silent (exit 0) on each behaviour-preserving patch in seeded/benign
cd "$(dirname "$0")/.."
tier=${1:-quick}; shift
out=seeded/benign/RESULT.$tier.txt
files=${@:-$(ls seeded/benign/*.diff | sort -V)}
[ $# -eq 0 ] && : > $out
for f in $files; do
  scratch=/tmp/benign.$$
  rm -rf $scratch; mkdir -p $scratch; rsync -a --exclude .git /repo/ $scratch/
  (cd $scratch && patch -p1 -s < /verif/$f) || { echo "$f: patch failed" | tee -a $out; continue; }
  line="$(basename $f):"
  for p in C01 C02 C03 C04 C05 C06 C07 C08 C09 C10 C11 C12 C13 C14 C15 C16 C17 C18 C19 C20; do
    o=$(VERIF_REPO=$scratch ./check $p $tier 2>&1); rc=$?
    if [ $rc -ne 0 ]; then line="$line $p(rc=$rc)"; echo "$o" | grep -v '^KNOWN' | head -5 | cut -c1-400 >> $out.detail; fi
  done
  [ "$line" = "$(basename $f):" ] && line="$line all 20 checks silent"
  grep -v "^$(basename $f):" $out > $out.keep 2>/dev/null; mv $out.keep $out
  echo "$line" | tee -a $out
  rm -rf $scratch; rm -f .build/*.$(echo "$scratch" | md5sum | cut -c1-8)*
done
