#!/usr/bin/env python3
"""Regenerates DESIGN.md section 11 (kill matrix) from seeded/*/meta.json and seeded/benign/RESULT.quick.txt."""
import json, os, re
HERE = os.path.dirname(os.path.dirname(os.path.abspath(__file__)))
rows = []
for name in sorted(os.listdir(os.path.join(HERE, "seeded"))):
    f = os.path.join(HERE, "seeded", name, "meta.json")
    if os.path.exists(f):
        m = json.load(open(f))
        caught = m.get("caught_by_quick")
        rows.append((name, m["breaks_property"], m["needs_to_manifest"], " ".join(caught) if caught else "(not yet run)"))
STRENGTH = {
 "C01-a": "pools of G gained U+FFFD, NBSP, C1 controls, BOM, lone bytes; 1 in 4 literal values is a combination of hostile units",
 "C06-a": "C06 root-cause rule: a bound inherited from a misaligned descendant is skipped, the deepest misaligned node itself is judged",
 "C12-a": "poison / probe call sequences in C12 and C18",
 "C18-a": "very long tokens (1 100 – 70 000 bytes) in the tree workloads and the C18 set",
 "C19-a": "wide lists (up to 40 000 / 120 000 elements); C19 compares the traversal with the reflective model",
 "C04-b": "systematic single-token edits of every corpus file (delete each token, comma before each token)",
 "C17-b": "C17 ranges twice over one stored Preorder iterator",
 "C18-b": "every C18 shard evaluates the determinism set in a different order; shards must agree per case index",
 "C20-b": "C20: an excerpt line that is neither a numbered line of the range nor a marker line is a violation",
 "C01-c": "literal values built from pairs / triples of hostile units",
 "C02-c": "qualified special forms (`SAFE.COUNT(*)`, `pkg.CAST(...)`, ...) judged when accepted",
 "C04-c": "systematic deletion of every balanced bracket group",
 "C05-c": "back-quoted pseudo-keyword sub-workload of C05 (signatures tagged @qpkw)",
 "C06-c": "token moves by 1-3 positions (clause-order near misses) over the systematic set, the corpus and random sentences",
 "C08-c": "identifiers that spell a pseudo-keyword (always back-quoted) in the random sentences of C04/C05/C08/C09/C16/C17/C19",
 "C09-c": "wide broken lists (7 - 1 500 elements, each with a syntax error)",
 "C16-c": "reserved words written unquoted as field names after a dot; `a.KW KW` forms in C14",
 "C03-d": "error ranges that start on a late line and span many lines (C03), ranges crossing a digit-count boundary of the line numbers (C20)",
 "C07-d": "integer atoms at and beyond the INT64 boundary in the operator trees",
 "C11-d": "statements ending in a pipe SELECT with trailing comma (and other end-of-input-sensitive statements) in the list workload",
 "C14-d": "every \\uXXXX escape and every BMP \\UXXXXXXXX escape, every byte value between two tokens, rendered G sentences in the C13/C14 workloads",
 "C17-d": "nested ranging over one stored Preorder value",
 "C19-d": "a second set of poslang expression objects shared by all node types with the same expression text",
 "C20-d": "texts of up to 400 (thorough 3 000) lines with every position resolved",
 "C02-i": "names that differ from a pseudo-keyword only by Unicode case folding (U+017F, U+212A, dotless / dotted i), back-quoted in the keyword's place (C01, C02); the normal form of C02 itself now folds ASCII letters only (it used strings.EqualFold and would have shared the defect)",
 "C05-i": "group swaps: runs of 2-3 tokens exchanged with the following run of 1-3 tokens, at every position of every systematic sentence and corpus file (near-miss workload)",
 "C06-i": "C06 also judges every corpus statement and systematic sentence as the second element of a statement list",
 "C03-j": "error display matrix: 20 erroneous inputs x token separator x last separator x end of input (tab, bare CR, CR LF, VT, FF), and the corpus !bad_ files re-spaced, through every entry point",
 "C11-j": "all ordered pairs (and a;b;b triples) of a statement pool - G systematic set, corpus, 45 context-sensitive trailing-comma forms - as statement lists",
 "C13-j": "token length sweep: 17 token / comment / literal shapes x body length 0..300 (thorough 2 100) x 4 fillers x 5 last bytes, with the terminator occurring again later (C13, C14)",
 "C17-j": "the recording visitor returns a fresh value from every callback and checks which callback produced the value each callback arrives at (Index must arrive at VisitMany's result, Field at Visit's)",
 "C01-k": "same-name variants (each identifier given the name of the previous / last-but-one identifier, all identifiers equal) and alias-collapse variants (`operand AS x` -> `x AS x`) of every systematic sentence (C01, C02)",
 "C04-k": "C04 stops Preorder / Inspect / PreorderMany / InspectMany early at up to 14 points per tree (first two, middle, last two nodes, around every root boundary)",
 "C08-k": "query slot matrix: 9 query forms as parenthesised leading operand x 12 larger query forms x 22 query slots (C08); building it exposed K9 (`(query) |> operator` rejected in sub-query positions), repaired by a fix: commit",
 "C18-k": "multi-key hints in front of every short corpus statement and every context-sensitive statement (C18 determinism set, evaluated by 16 fresh processes and concurrently)",
 "C08-i": "value-slot matrix: 94 expression forms (incl. field paths with reserved-word and digit-leading components) in 51 slots where the grammar allows any expression (C01, C02, C08)",
 "C09-i": "open-then-broken family: 22 statements left open (brackets, constructors, look-ahead in progress) x 3 separators x 10 lexically malformed tokens x 3 heads, through the list and single entries (tree workload and C03)",
 "C16-i": "trivia pool: comment bodies made of the characters that open and close comments (`/***/`, `/* c **/`, `/*/*/`, `--/*`, `#*/` ...)",
 "C03-h": "caught by a random token mutant only; C03 now also runs the sentences of grammar G (systematic set under three renderings + random) through their entry points",
 "C15-h": "long values: plain runs of 35 lengths (15 ... 70 001, around every power of two) x 3 fillers x 13 special units at the start, after the run and at the end",
 "C07-h": "C07 atoms that bring their own brackets or keywords (scalar / ARRAY / EXISTS sub-query, CASE, CAST, array literal, tuple): a parenthesis written around them is still a ParenExpr",
 "C11-h": "a `;` inserted in front of every token of every corpus file and systematic sentence (C11)",
 "C12-h": "literal matrix: backslash runs (0-5) x quote runs (0-4) for every prefix and quote form; the literal matrix also runs through C12, alone and between separators",
 "C13-h": "every code point as the first thing in the input (C13/C14)",
 "C19-h": "C19 rebuilds each parsed tree with sibling slots sharing one node instance (hand-built DAG) and compares the traversal with the field model",
 "C20-h": "C20 asks one shared File object for all pairs of a text, forwards, backwards and jumping, and compares with a fresh File per call",
 "C01-g": "operand matrix (every primary-expression form x operator context x field-name kind after the dot) in C01, C02, C05, C06",
 "C02-g": "qualified special forms with the form's own name as first / middle path component (`count.x(*)`, `x.CAST.y(...)`)",
 "C05-g": "every word of every corpus file and systematic sentence back-quoted in place (tagged sub-workload `@qpkw`; a known finding for an untagged signature also covers the tagged one)",
 "C06-g": "list widening: every bracket group of every systematic sentence and corpus file with its last element repeated 13 / 17 / 70 times (near-miss workload of C02/C04/C05/C06/C09/C10/C16/C17/C19)",
 "C08-g": "C08 relation: a sentence accepted with a list widened by 13 elements must be accepted with it widened by 900 (systematic set, corpus, hand-written hosts with parenthesised query operands)",
 "C09-g": "systematic truncations (after every token) and starts in the middle (before every token) of every corpus file and systematic sentence",
 "C16-g": "C16 re-spells whatever else the parser accepts: near misses, scope probes, qualified special forms, wide hosts",
 "C18-g": "errsites.tsv (cmd/harvest: one short input per (entry, error message shape), 69 of 73 parser message templates reached); C18 holds each result, re-parses the text at shifted positions and re-reads the held result; all error sites from 16 goroutines at once under the race detector",
 "C03-f": "every reserved / pseudo keyword after an erroneous prefix and in front of each kind of lexically malformed token, through every entry point",
 "C07-f": "long chains (257 / 4 099 / 12 000, thorough 70 001 operands) of every left-associative operator, of alternating operator pairs, of prefix operators and subscripts; the spine is checked node by node",
 "C11-f": "long homogeneous statement lists (4 096 / 20 000 copies of 56 statement shapes, 2 500 copies of every sentence of the systematic set) through one parser instance",
 "C12-f": "the reference lexer now skips the Unicode whitespace characters GoogleSQL lists (they were Unspecified); every such character and its neighbours around a top-level `;` in C12, every code point between two tokens in C13/C14",
 "C14-f": "every identifier-shaped word of up to 5 characters over [a-z0-9_] (thorough: every 6-letter word) must be its keyword or an identifier (52 million words, lean loop)",
 "C17-f": "wide lists with one deep element (129 - 1 200 elements x 130 - 1 100-deep chain / parentheses / array nest at 4 positions) in the tree workload of C04/C05/C06/C09/C10/C17/C19",
 "C20-f": "hostile file paths (`%`, `:`, newline, quotes, empty, long) x error inputs x every entry point, and Position.String()",
 "C01-e": "G writes `expression.*` over arbitrary expressions (which exposed and led to the repair of the residual `a + 1 .*` defect)",
 "C02-e": "duplicated token runs (lengths 1-8) as near misses",
 "C04-e": "future-syntax phrase insertion (`IS NOT DISTINCT FROM b`, `QUALIFY`, `OVER ()`, pipe operators ...) into short corpus sentences",
 "C06-e": "hostile prefixes (BOM, NBSP, zero-width space, NUL ...) in front of valid inputs",
 "C08-e": "hand-written sentences and re-spelling pairs around the fused tokens `<>` and `>>`",
 "C10-e": "Bad-type seeds with a comment directly before `>>`; comment-only separators as a random mutation",
 "C16-e": "see C08-e",
 "C18-c": "more poison / probe pairs (a call that stops on an unconsumed identifier / ) / ], then an input starting with `.5`)",
}
out = []
out.append("## 11. Seeded changes and kill matrix\n")
out.append("Every change below was written by a fresh sub-agent that saw only the text of one property and a scratch git\n"
           "worktree of /repo (nothing from /verif), in eleven rounds: (a) free choice, (b) a prescribed area of the code per\n"
           "property, (c)-(k) \"make it survive generic property-based testing\" with an increasingly detailed description of what such testing does. Each was verified with\n"
           "`tools/mutant_verify.sh` (compiles, unedited suite passes, demonstration fails with the change and passes without)\n"
           "and is kept as `seeded/<name>/{patch.diff, mutant_demo_test.go, MUTANT.md, meta.json}`. \"caught by\" lists the\n"
           "checks whose **quick** command exits 1 on a scratch copy of /repo with the patch applied (`tools/killmatrix.sh`);\n"
           "rows marked (+) come from `tools/mutant_try.sh` / `tools/targets_run.sh` runs of the listed checks only (the other checks were not run against that change).\n"
           "\"strengthened\" says what was added to the machinery when the first run of the target check missed the change\n"
           "(or caught it only by luck); after that, every seeded change is caught by the check of the property it was\n"
           "written against.\n")
out.append("| change | written against | needs, in order to manifest | caught by (quick) | strengthened |")
out.append("|---|---|---|---|---|")
for name, prop, needs, caught in rows:
    out.append(f"| {name} | {prop} | {needs} | {caught} | {STRENGTH.get(name, '')} |")
out.append("")
tf = os.path.join(HERE, "seeded", "TARGETS.quick.txt")
if os.path.exists(tf):
    tl = [l for l in open(tf).read().splitlines() if l.strip()]
    nc = sum(1 for l in tl if "caught by" in l)
    out.append(f"\nWith the final harness, `tools/targets_run.sh quick` ran the check of the property each change was written against "
               f"on a scratch copy with the patch applied: {nc} of {len(tl)} changes are caught (`seeded/TARGETS.quick.txt`)."
               + ("" if nc == len(tl) else " Missed: " + ", ".join(l.split(":")[0] for l in tl if "caught by" not in l) + ".") + "\n")
bf = os.path.join(HERE, "seeded", "benign", "RESULT.quick.txt")
out.append("**Benign changes** (must stay silent; `seeded/benign/N.diff`, written by a sub-agent asked for behaviour-preserving\n"
           "maintenance: a parser refactoring, reworded error messages, a different Bad-node skipping heuristic, a lexer fast\n"
           "path, strings.Builder in sql.go, binary search in ResolvePos, a restructured split loop, a new exported helper;\n"
           "17-24 are the correct counterparts of defects seeded in rounds 6-8: an ASCII fast path in skipSpaces, a length\n"
           "guard in front of the keyword lookup, a pre-allocated traversal stack, fixed-message errors built by a helper that\n"
           "returns a new *Error each time, expect() without the Clone, Position.String() without fmt, a shared\n"
           "`expr.field` printing helper, a grown slice in the poslang interpreter).\n"
           "Result of `tools/benign_run.sh quick` with the harness of round 9 (all 20 checks per patch):\n")
if os.path.exists(bf):
    out.append("```")
    out.append(open(bf).read().rstrip())
    out.append("```")
else:
    out.append("(not yet run)")
out.append("")
pf = os.path.join(HERE, "seeded", "benign", "RESULT.pairs.quick.txt")
if os.path.exists(pf):
    out.append("After rounds 10 and 11 there was no time for the full 24 x 20 run again (about two hours). The checks that gained a\n"
               "workload or a stricter observer in those rounds were run against the benign patches that touch the code they\n"
               "observe (`tools/benign_pairs.sh quick`: traversal stack -> C17, C04, C19; lexer fast paths and the keyword length\n"
               "guard -> C13, C14, C16; reworded / fixed-message errors, ResolvePos, Position.String -> C03, C18, C20; parser\n"
               "refactoring, split loop, expect() without Clone -> C11, C12, C08, C01, C02; strings.Builder and the shared\n"
               "`expr.field` helper in sql.go -> C01, C02). All 30 (patch, check) runs were silent:\n")
    out.append("```")
    out.append(open(pf).read().rstrip())
    out.append("```")
    out.append("")
text = "\n".join(out) + "\n"
p = os.path.join(HERE, "DESIGN.md")
s = open(p).read()
if "## 11. Seeded changes and kill matrix" in s:
    i = s.index("## 11. Seeded changes and kill matrix")
    j = s.index("---------------------------------------------------------------------------\n\n## Appendix A")
    s = s[:i] + text + "\n" + s[j:]
else:
    j = s.index("---------------------------------------------------------------------------\n\n## Appendix A")
    s = s[:j] + text + "\n" + s[j:]
open(p, "w").write(s)
print("section 11 written:", len(rows), "changes")
