#!/bin/bash
# tools/mutant_try.sh <patch-file|name> <tier> <checks...>: runs selected checks against a scratch copy of /repo with the patch applied.
cd "$(dirname "$0")/.."
patchf=$1; tier=$2; shift; shift
[ -f "$patchf" ] || patchf=/verif/seeded/$patchf/patch.diff
scratch=/tmp/mtry.$$
rm -rf $scratch; mkdir -p $scratch; rsync -a --exclude .git /repo/ $scratch/
(cd $scratch && patch -p1 -s < $patchf) || { echo "patch failed"; rm -rf $scratch; exit 2; }
for p in "$@"; do
  out=$(VERIF_REPO=$scratch ./check $p $tier 2>&1); rc=$?
  echo "$(basename $(dirname $patchf))/$(basename $patchf) $p rc=$rc $(echo "$out" | grep -m2 'signature=\|INCONCLUSIVE' | sed 's/^ *//' | cut -c1-200 | tr '\n' '|')"
done
rm -rf $scratch; rm -f .build/*.$(echo "$scratch" | md5sum | cut -c1-8)*
