#!/bin/bash
# tools/mutant_run.sh <name> [tier] [checks...]: applies seeded/<name>/patch.diff to /repo, runs the checks, undoes the patch.
# Prints one line per check: <name> <check> <exit code> <first violation signature>
cd "$(dirname "$0")/.."
name=$1; tier=${2:-quick}; shift; shift
checks=${@:-C01 C02 C03 C04 C05 C06 C07 C08 C09 C10 C11 C12 C13 C14 C15 C16 C17 C18 C19 C20}
git -C /repo diff --quiet || { echo "/repo is dirty"; exit 2; }
git -C /repo apply /verif/seeded/$name/patch.diff || { echo "patch does not apply"; exit 2; }
trap 'git -C /repo checkout -- . ' EXIT
for p in $checks; do
  out=$(./check $p $tier 2>&1); rc=$?
  sig=$(echo "$out" | grep -m1 'signature=' | sed 's/^ *//' | cut -c1-160)
  echo "$name $p rc=$rc $sig"
done
