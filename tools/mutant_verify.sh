#!/bin/bash
# tools/mutant_verify.sh <worktree> <name>: verifies a seeded change in a scratch worktree and stores it under seeded/<name>
# (compiles, suite passes without the demo, demo fails with the change and passes without it)
set -u
export GOFLAGS=-mod=mod GOPROXY=off GOSUMDB=off GOTOOLCHAIN=local
wt=$1; name=$2
out=/verif/seeded/$name
mkdir -p $out
cd $wt || exit 2
demos=$(git status --porcelain | grep '^??' | awk '{print $2}' | grep '_test.go$')
changed=$(git diff --name-only)
echo "changed: $changed"; echo "demos: $demos"
[ -n "$changed" ] || { echo "NO CHANGE"; exit 1; }
go build ./... || { echo "BUILD FAILS"; exit 1; }
# suite without the demo
mkdir -p /tmp/mutdemo.$$; for d in $demos; do mv $d /tmp/mutdemo.$$/$(echo $d | tr / _); done
suite=$(go test -count=1 ./... 2>&1 | grep -v 'no test files'); echo "$suite" | grep -q FAIL && { echo "SUITE FAILS WITH CHANGE"; echo "$suite" | tail -5; }
suite_ok=$?; 
for d in $demos; do mv /tmp/mutdemo.$$/$(echo $d | tr / _) $d; done; rmdir /tmp/mutdemo.$$
# demo with change
pk=""; for d in $demos; do pk="$pk ./$(dirname $d)"; done
with=$(go test -count=1 -run 'Mutant|Demo' $pk 2>&1 | tail -3)
echo "$with" | grep -q 'FAIL' && with_res=FAIL || with_res=PASS
# no git stash here: stashes are shared between worktrees
git diff -- $changed > /tmp/mutverify.$$.diff
git apply -R /tmp/mutverify.$$.diff
without=$(go test -count=1 -run 'Mutant|Demo' $pk 2>&1 | tail -3)
echo "$without" | grep -q 'FAIL' && without_res=FAIL || without_res=PASS
git apply /tmp/mutverify.$$.diff; rm -f /tmp/mutverify.$$.diff
echo "demo with change: $with_res ; without: $without_res"
git diff -- $changed > $out/patch.diff
for d in $demos; do cp $d $out/; done
[ -f MUTANT.md ] && cp MUTANT.md $out/
echo "$with_res $without_res" > $out/.verify
echo "$suite" | grep -q FAIL && echo "suite FAIL" >> $out/.verify || echo "suite ok" >> $out/.verify
