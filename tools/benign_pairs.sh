#!/bin/bash
# tools/benign_pairs.sh <tier> <n:Cxx,Cyy> ...: runs selected checks against selected benign patches (scratch copy of /repo)
cd "$(dirname "$0")/.."
tier=$1; shift
for spec in "$@"; do
  n=${spec%%:*}; checks=$(echo "${spec#*:}" | tr ',' ' ')
  scratch=/tmp/bpair.$$
  rm -rf $scratch; mkdir -p $scratch; rsync -a --exclude .git /repo/ $scratch/
  (cd $scratch && patch -p1 -s < /verif/seeded/benign/$n.diff) || { echo "$n.diff: patch failed"; continue; }
  line="$n.diff:"
  for p in $checks; do
    o=$(VERIF_REPO=$scratch ./check $p $tier 2>&1); rc=$?
    if [ $rc -ne 0 ]; then line="$line $p(rc=$rc)"; echo "$o" | grep -v '^KNOWN' | head -5 | cut -c1-400; else line="$line $p=silent"; fi
  done
  echo "$line"
  rm -rf $scratch; rm -f .build/*.$(echo "$scratch" | md5sum | cut -c1-8)*
done
