#!/usr/bin/env python3
"""Writes seeded/<name>/meta.json from the table below and the kill matrix files."""
import json, os, re
HERE = os.path.dirname(os.path.dirname(os.path.abspath(__file__)))
NEEDS = {
 "C01-a": ("C01", "a string literal or quoted identifier containing a genuine U+FFFD (quoteSQLStringContent treats it as an invalid byte)"),
 "C02-a": ("C02", "a unary minus applied to an already signed numeric literal (`- -1`): printed as `--1`, a comment that swallows the rest"),
 "C03-a": ("C03", "a \\uD800..\\uDFFF escape in a string / quoted identifier while the parser re-lexes in recovery mode: panic with *Error escapes Parse*"),
 "C04-a": ("C04", "CREATE VECTOR INDEX without the OPTIONS clause: accepted with nil Options, SQL() dereferences nil"),
 "C05-a": ("C05", "blanks / newline / comment between a unary sign and a numeric literal: literal Pos lands on a trivia byte"),
 "C06-a": ("C06", "same site as C05-a (sign folding): the literal's range loses the sign when trivia separates them"),
 "C07-a": ("C07", "`||` mixed unparenthesised with * / or binary + -: moved to the + - level in parser and exprPrec consistently, round trip unchanged"),
 "C08-a": ("C08", "an ORDER BY item with both COLLATE and ASC/DESC: the two try-parse helpers were swapped"),
 "C09-a": ("C09", "two sibling recoveries failing with the same message at the same position (typed struct literal with unnamed fields in an open list): error de-duplicated, fewer errors than BadNodes"),
 "C10-a": ("C10", "type error inside ARRAY<..>/STRUCT<..> closed by a fused `>>`: the split half-token is recorded with Raw `>>`"),
 "C11-a": ("C11", "select list with trailing comma terminated by ';' inside a statement list"),
 "C12-a": ("C12", "two calls in one process: a SplitRawStatements call failing right after a dot leaves dot-identifier state in a pooled Lexer"),
 "C13-a": ("C13", "whitespace, then a comment, then no whitespace: Space of the next comment/token repeats the earlier whitespace"),
 "C14-a": ("C14", "exactly the escape \\uDFFF / \\U0000DFFF (off-by-one in the surrogate range check)"),
 "C15-a": ("C15", "a string or identifier containing a genuine U+FFFD (same site as C01-a)"),
 "C16-a": ("C16", "vertical tab or form feed between tokens (ASCII fast path in skipSpaces)"),
 "C17-a": ("C17", "an aggregate call with HAVING MAX/MIN: interface moved in ast.go so that the regenerated walk table drops CallExpr.Having"),
 "C18-a": ("C18", "SQL() of a string literal whose quoted text exceeds 1024 bytes, followed by any other string literal (pooled buffer not reset)"),
 "C19-a": ("C19", "a node-slice field with more than ~10000 elements: Walk stops silently (stack-length guard)"),
 "C20-a": ("C20", "a multi-line error range that does not start on the first line: Position panics"),
}
NEEDS.update(json.load(open(os.path.join(HERE, "seeded", "needs_extra.json"))) if os.path.exists(os.path.join(HERE, "seeded", "needs_extra.json")) else {})
kill = {}
for tier in ("quick", "thorough"):
    f = os.path.join(HERE, "seeded", f"KILLMATRIX.{tier}.txt")
    if os.path.exists(f):
        for l in open(f):
            name, _, rest = l.partition(":")
            kill.setdefault(name.strip(), {})[tier] = rest.split()
for name in sorted(os.listdir(os.path.join(HERE, "seeded"))):
    d = os.path.join(HERE, "seeded", name)
    if not os.path.isdir(d) or name not in NEEDS:
        continue
    prop, needs = NEEDS[name]
    ver = open(os.path.join(d, ".verify")).read().split() if os.path.exists(os.path.join(d, ".verify")) else []
    meta = {
        "name": name,
        "breaks_property": prop,
        "needs_to_manifest": needs,
        "origin": "written by a fresh sub-agent that saw only the property text and a scratch worktree of /repo",
        "verified": {
            "compiles_and_suite_passes_with_change": (len(ver) >= 4 and ver[3] == "ok"),
            "demo_with_change": ver[0] if ver else "?",
            "demo_without_change": ver[1] if len(ver) > 1 else "?",
            "how": "tools/mutant_verify.sh <worktree> <name> (go build, go test without the demo, demo with and without the change)",
        },
        "checks_run": "tools/killmatrix.sh (every check's quick command against a scratch copy of /repo with the patch applied)",
        "caught_by_quick": kill.get(name, {}).get("quick"),
        "caught_by_thorough": kill.get(name, {}).get("thorough"),
        "files": sorted(x for x in os.listdir(d) if not x.startswith(".") and x != "meta.json"),
    }
    json.dump(meta, open(os.path.join(d, "meta.json"), "w"), indent=1)
print("meta written for", len([n for n in NEEDS if os.path.isdir(os.path.join(HERE, 'seeded', n))]))
