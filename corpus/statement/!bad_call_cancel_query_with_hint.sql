@{unknown_hint=1}
CALL cancel_query("12345")