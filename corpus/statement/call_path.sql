-- https://github.com/google/zetasql/blob/a516c6b26d183efc4f56293256bba92e243b7a61/zetasql/parser/testdata/call.test#L15C1-L15C26
call schema.myprocedure()