SELECT product_id, product_name, content
FROM ML.PREDICT(
    MODEL TextBison,
    (SELECT
         product.id as product_id,
         product.name as product_name,
         CONCAT("Is this product safe for infants?", "\n",
                "Product Name: ", product.name, "\n",
                "Category Name: ", category.name, "\n",
                "Product Description:", product.description) AS prompt
     FROM
         Products AS product JOIN Categories AS category
                                  ON product.category_id = category.id),
    STRUCT(100 AS maxOutputTokens)
) @{remote_udf_max_rows_per_rpc=1}