select 1 + 2, 1 - 2,
       1 * 2, 2 / 2,
       +1++1, -1+-1,
       +1.2, -3.4,
       ~1 ^ ~1,
       1 ^ 2, 2 & 1, 2 | 1,
       1 << 2, 2 >> 1,
       foo.bar * +foo.bar * -foo.bar,
       (select 1 `1`).1,
       NOT NOT true,
       [1, 2, 3][offset(1)],
       [1, 2, 3][`offset`(1)],
       [1, 2, 3][ordinal(1)],
       case
       when 1 = 1 then "1 = 1"
       else            "else"
       end,
       case 1
       when 1 then "1"
       when 2 then "2"
       else        "other"
       end,
       date_add(date "2019-09-01", interval 5 day),
       timestamp_add(timestamp "2019-09-01 08:11:22", interval 5 hour),
       1 in (1, 2, 3),
       2 in unnest([1, 2, 3]),
       3 in (select 1 union all select 2 union all select 3),
       [1] || [2],
       IF (1 > 1, 1, 2)+1 AS result,
