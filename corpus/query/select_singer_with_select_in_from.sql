SELECT
  *
FROM (
  SELECT
    *
  FROM
    Singers
  WHERE
    SingerID = 1
)
