SELECT
  FirstName, BirthDate
FROM
  Singers
GROUP BY
  FirstName, BirthDate
