SELECT
  ARRAY(
    (
      SELECT AS STRUCT
        *
      FROM Singers LIMIT 100
    )
  )
