SELECT
  *
FROM
  Singers
WHERE
  SingerID = 1 OR FirstName = "foobar" AND LastName = "fizzbuzz"
