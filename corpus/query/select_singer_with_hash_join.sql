SELECT
  *
FROM
  Singers A
  HASH JOIN
  Singers B
  ON A.SingerID = B.SingerID