-- https://cloud.google.com/spanner/docs/reference/standard-sql/functions-reference#function_hints
SELECT
    SUBSTRING(CAST(x AS STRING), 2, 5) AS w,
    SUBSTRING(CAST(x AS STRING), 3, 7) AS y
FROM (SELECT SHA512(z) @{DISABLE_INLINE = TRUE} AS x FROM t)