-- https://cloud.google.com/spanner/docs/ml-tutorial-generative-ai?hl=en#register_a_generative_ai_model_in_a_schema
SELECT content
FROM ML.PREDICT(
    MODEL TextBison,
    (SELECT "Is 13 prime?" AS prompt),
    STRUCT(256 AS maxOutputTokens, 0.2 AS temperature, 40 as topK, 0.95 AS topP)
) @{remote_udf_max_rows_per_rpc=1}