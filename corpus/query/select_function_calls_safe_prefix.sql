SELECT SAFE.SUBSTR('foo', 0, -2) AS safe_output UNION ALL
SELECT SAFE.SUBSTR('bar', 0, 2) AS safe_output