SELECT
  A.x,
  A.y,
  A.z.a,
  A.z.b
FROM
  UNNEST(
    ARRAY(
      SELECT AS STRUCT
        x,
        y,
        z
      FROM
        UNNEST(ARRAY<STRUCT<x INT64, y STRING, z STRUCT<a INT64, b INT64>>>[(1, 'foo', (2, 3)), (3, 'bar', (4, 5))])
    )
  ) AS A
WHERE A.z.a = 2
