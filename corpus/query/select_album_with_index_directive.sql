SELECT AlbumId, AlbumTitle, MarketingBudget
FROM Albums@{FORCE_INDEX=AlbumsByAlbumTitle}
WHERE AlbumTitle >= @startTitle AND AlbumTitle < @endTitle
