SELECT
  SingerID
FROM
  Singers
GROUP BY
  SingerID
HAVING
  SingerID = 1
