select count(*) from singers
