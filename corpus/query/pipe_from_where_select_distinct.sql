FROM Singers
|> WHERE FirstName = "John"
|> SELECT DISTINCT *