-- https://cloud.google.com/spanner/docs/reference/standard-sql/query-syntax#correlated_join
SELECT A.name, item, ARRAY_LENGTH(A.items) item_count_for_name
FROM
  UNNEST(
    [
      STRUCT(
        'first' AS name,
        [1, 2, 3, 4] AS items),
      STRUCT(
          'second' AS name,
        [] AS items)]) AS A
    LEFT JOIN
  A.items AS item
