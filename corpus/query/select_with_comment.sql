-- foobar
select 1
