SELECT s.SingerId, s.FirstName, s.LastName FROM Singers AS s
JOIN
(SELECT SingerId FROM Albums WHERE MarketingBudget > 100000 FOR UPDATE) AS a
ON a.SingerId = s.SingerId
