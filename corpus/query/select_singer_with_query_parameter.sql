SELECT
  *
FROM
  Singers
WHERE
  SingerID = @singerID
  AND @singerID = SingerID
