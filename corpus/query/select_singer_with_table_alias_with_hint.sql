SELECT
  *
FROM
  Singers@{FORCE_INDEX=SingersByFirstLastName} AS S
