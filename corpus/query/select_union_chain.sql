(select 1) union all (select 2) union all (select 3)
