FROM Singers
|> SELECT ALL *