SELECT
  *
FROM
  Singers A
  JOIN
  Singers B
  ON A.SingerID = B.SingerID
  INNER JOIN
  Singers C
  ON A.SingerID = C.SingerID
