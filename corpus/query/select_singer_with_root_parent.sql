( SELECT * FROM Singers )
