SELECT
  [1, 2, 3],
  ['x', 'y', 'xy'],
  ARRAY[1, 2, 3],
  ARRAY<string>['x', 'y', 'xy'],
  ARRAY<int64>[]
