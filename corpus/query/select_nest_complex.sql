select *
from (
    (((select 1 A union all (select 2)) union distinct (select 1)) limit 1)
  JOIN
    (select 1 A, 2 B) USING (A)
)
