SELECT
  *
FROM
  Singers AS A,
  Singers AS B
