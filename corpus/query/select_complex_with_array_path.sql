SELECT
  *
FROM
  ComplexTable,
  ComplexTable.IntArray
