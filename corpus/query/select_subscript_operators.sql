select
    [1, 2, 3][offset(1)],
    [1, 2, 3][ordinal(1)],
    [1, 2, 3][safe_offset(1)],
    [1, 2, 3][ordinal(1)],
    [1, 2, 3][1],
    STRUCT(1, 2, 3)[offset(1)],
    STRUCT(1, 2, 3)[ordinal(1)],
    STRUCT(1, 2, 3)[safe_offset(1)],
    STRUCT(1, 2, 3)[ordinal(1)],
    STRUCT(1, 2, 3)[1],
    JSON '[1, 2, 3]'[1],
    JSON '{"a": 1, "b": 2, "c": 3}'['a']
