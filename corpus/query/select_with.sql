-- https://cloud.google.com/spanner/docs/reference/standard-sql/operators#with_expression
SELECT WITH(a AS '123',       -- a is '123'
    b AS CONCAT(a, '456'),    -- b is '123456'
    c AS '789',               -- c is '789'
    CONCAT(b, c)) AS result   -- b + c is '123456789'