select ((select 1) union all (select 2)) + 3,
       ((select 1) intersect all (select 1)) + 3,
       ((select 1) except all (select 1)) + 3
