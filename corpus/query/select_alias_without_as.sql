select 1 A
