SELECT
  *
FROM
  ComplexTable,
  UNNEST(ComplexTable.IntArray)
