SELECT ChangeRecord FROM READ_SingersNameStream (
  start_timestamp => "2022-05-01T09:00:00Z",
  end_timestamp => NULL,
  partition_token => NULL,
  heartbeat_milliseconds => 10000
)