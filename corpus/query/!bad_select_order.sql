select 1 order x asc
