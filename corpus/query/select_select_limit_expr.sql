select ((select 1) limit 1 offset 0) + 3
