SELECT
  *
FROM
  Singers A
  JOIN
  Singers B
  ON A.SingerID = B.SingerID
  INNER JOIN
  Singers C
  ON A.SingerID = C.SingerID
  CROSS JOIN
  Singers D
  FULL JOIN
  Singers E
  ON A.SingerID = E.SingerID
  FULL OUTER JOIN
  Singers F
  ON A.SingerID = F.SingerID
  LEFT JOIN
  Singers G
  ON A.SingerID = G.SingerID
  LEFT OUTER JOIN
  Singers H
  ON A.SingerID = H.SingerID
  RIGHT JOIN
  Singers I
  ON A.SingerID = I.SingerID
  RIGHT OUTER JOIN
  Singers J
  ON A.SingerID = J.SingerID
