SELECT
  *
FROM
  Singers
WHERE
  SingerID = 0xF
