SELECT
  *
FROM
  Singers
