SELECT id, color, value
FROM ML.PREDICT(MODEL DiamondAppraise, TABLE Diamonds)