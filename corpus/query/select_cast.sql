select cast(1 as INT64), cast(0.1 as float32), cast((struct(), 1, [2, 3], ["4", "5"]) as struct<struct<>, x int64, y array<int64>, z array<string>>)
from x tablesample BERNOULLI (cast(0.1 as float64) percent),
     y tablesample BERNOULLI (cast(1 as int64) rows),
     z tablesample BERNOULLI (cast(@param as int64) rows)
limit cast(1 as INT64) offset cast(@foo as INT64)
