SELECT
  *
FROM
  UNNEST(ARRAY<STRUCT<x INT64, y STRING>>[(1, 'foo'), (3, 'bar')])
