SELECT * FROM Singers
UNION ALL
SELECT * FROM Singers
WHERE
  SingerId = 1
ORDER BY
  FirstName
