SELECT MarketingBudget
FROM Albums
WHERE SingerId = 1 and AlbumId = 1
FOR UPDATE