-- https://cloud.google.com/spanner/docs/reference/standard-sql/query-syntax#correlated_join
SELECT *
FROM
  Roster
    JOIN
  UNNEST(
      ARRAY(
        SELECT AS STRUCT *
      FROM PlayerStats
      WHERE PlayerStats.OpponentID = Roster.SchoolID
    )) AS PlayerMatches
  ON PlayerMatches.LastName = 'Buchanan'
