SELECT
  *
FROM
  Singers A
  LEFT OUTER JOIN@{FORCE_JOIN_ORDER=TRUE}
  Singers B
  ON A.SingerID = B.SingerID
  JOIN@{JOIN_TYPE=HASH_JOIN}
  Singers C
  ON A.SingerID = C.SingerID
  JOIN@{JOIN_TYPE=APPLY_JOIN}
  Singers D
  ON A.SingerID = D.SingerID
  JOIN@{JOIN_TYPE=LOOP_JOIN}
  Singers E
  ON A.SingerID = E.SingerID
