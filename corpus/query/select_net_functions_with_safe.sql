-- original: https://cloud.google.com/spanner/docs/reference/standard-sql/net_functions#nethost
SELECT
  FORMAT("%T", input) AS input,
  description,
  FORMAT("%T", NET.HOST(input)) AS host,
  FORMAT("%T", NET.PUBLIC_SUFFIX(input)) AS suffix,
  FORMAT("%T", NET.REG_DOMAIN(input)) AS domain,
  FORMAT("%T", SAFE.NET.HOST(input)) AS safe_host,
  FORMAT("%T", SAFE.NET.PUBLIC_SUFFIX(input)) AS safe_suffix,
  FORMAT("%T", SAFE.NET.REG_DOMAIN(input)) AS safe_domain
FROM (
    SELECT "" AS input, "invalid input" AS description
    UNION ALL SELECT "http://abc.xyz", "standard URL"
    UNION ALL SELECT "//user:password@a.b:80/path?query",
    "standard URL with relative scheme, port, path and query, but no public suffix"
    UNION ALL SELECT "https://[::1]:80", "standard URL with IPv6 host"
    UNION ALL SELECT "http://例子.卷筒纸.中国", "standard URL with internationalized domain name"
    UNION ALL SELECT "    www.Example.Co.UK    ",
    "non-standard URL with spaces, upper case letters, and without scheme"
    UNION ALL SELECT "mailto:?to=&subject=&body=", "URI rather than URL--unsupported"
)
