SELECT
  SingerId,
  *
FROM
  Singers
