SELECT
  *
FROM
  Singers
WHERE
  SingerID = 1
  OR SingerID < 1
  OR SingerID > 1
  OR SingerID <= 1
  OR SingerID >= 1
  OR SingerID != 1
  OR SingerID IN (1, 2, 3)
  OR SingerID NOT IN (1, 2, 3)
  OR SingerID BETWEEN 1 AND 3
  OR SingerID NOT BETWEEN 1 AND 3
  OR FirstName LIKE "%a"
  OR FirstName NOT LIKE "%a"
  OR NULL IS NULL
  OR NULL IS NOT NULL
  OR (SingerID = 1) IS TRUE
  OR (SingerID = 1) IS NOT TRUE
  OR (SingerID = 1) IS FALSE
  OR (SingerID = 1) IS NOT FALSE
