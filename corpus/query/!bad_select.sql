select
