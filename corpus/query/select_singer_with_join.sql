SELECT
  *
FROM
  Singers A
  LEFT OUTER JOIN
  Singers B
  ON A.SingerID = B.SingerID
