SELECT
  *
FROM
  Singers
ORDER BY
  FirstName,
  LastName COLLATE "en_US",
  BirthDate DESC