-- https://cloud.google.com/spanner/docs/full-text-search/ranked-search#score_multiple_columns
SELECT AlbumId
FROM Albums
WHERE SEARCH(Title_Tokens, @p1) AND SEARCH(Studio_Tokens, @p2)
ORDER BY WITH(
  TitleScore AS SCORE(Title_Tokens, @p1) * @titleweight,
  StudioScore AS SCORE(Studio_Tokens, @p2) * @studioweight,
  DaysOld AS (UNIX_MICROS(CURRENT_TIMESTAMP()) - ReleaseTimestamp) / 8.64e+10,
  FreshnessBoost AS (1 + @freshnessweight * GREATEST(0, 30 - DaysOld) / 30),
  PopularityBoost AS (1 + IF(HasGrammy, @grammyweight, 0)),
  (TitleScore + StudioScore) * FreshnessBoost * PopularityBoost)
LIMIT 2