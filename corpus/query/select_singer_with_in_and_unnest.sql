SELECT
  *
FROM
  Singers
WHERE
  SingerId IN UNNEST(ARRAY[1, 2, 3])
