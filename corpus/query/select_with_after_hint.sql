@{hint1 = 1} with subq1 as (select c1 from foo) select * from subq1
