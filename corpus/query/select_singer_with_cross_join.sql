SELECT
  *
FROM
  Singers A
  CROSS JOIN
  Singers B
