SELECT a.AlbumId, a.Description
FROM Albums a
WHERE a.SingerId = 1 AND SEARCH(a.DescriptionTokens, 'classic albums', enhance_query => TRUE)