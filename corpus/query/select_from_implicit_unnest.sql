SELECT a, off
FROM UNNEST([STRUCT<arr ARRAY<STRING>>(["foo"])]) AS t,
     t.arr AS a WITH OFFSET AS off