SELECT
  S.*,
  S.SingerId as ID,
  S.FirstName
FROM Singers S
