@ select 1
