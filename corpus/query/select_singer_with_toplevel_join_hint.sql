@{FORCE_JOIN_ORDER=TRUE}
SELECT
  *
FROM
  Singers A
  LEFT OUTER JOIN
  Singers B
  ON A.SingerID = B.SingerID
