SELECT
  *
FROM
  Singers A
  LEFT OUTER JOIN
  Singers B
  USING (SingerID, FirstName)
