SELECT
  SingerId AS ID,
  FirstName,
  LastName,
  SingerInfo,
  BirthDate
FROM Singers
