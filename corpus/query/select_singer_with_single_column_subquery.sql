SELECT (
  SELECT FirstName
  FROM Singers LIMIT 100
)
