SELECT
  123,
  0xABC,
  -123,
  -0xABC
