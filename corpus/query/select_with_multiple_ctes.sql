with subq1 as (select c1 from foo), subq2 as (select c2 from foo) select * from subq1
