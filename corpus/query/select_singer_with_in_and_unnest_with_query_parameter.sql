SELECT
  *
FROM
  Singers
WHERE
  SingerId IN UNNEST(@singerIDs)
