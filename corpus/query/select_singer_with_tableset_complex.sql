SELECT * FROM Singers
UNION ALL
(
  SELECT * FROM Singers
  UNION DISTINCT
  (
    SELECT * FROM Singers
    INTERSECT ALL
    (
      SELECT * FROM Singers
      INTERSECT DISTINCT
      (
        SELECT * FROM Singers
        EXCEPT ALL
        (
          SELECT * FROM Singers
          EXCEPT DISTINCT
          SELECT * FROM Singers
        )
      )
    )
  )
)
