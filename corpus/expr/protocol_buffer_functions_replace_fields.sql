REPLACE_FIELDS(
  NEW Book(
    "The Hummingbird" AS title,
    NEW BookDetails(10 AS chapters) AS details),
  "The Hummingbird II" AS title,
  11 AS details.chapters)