-- Example from https://cloud.google.com/spanner/docs/reference/standard-sql/operators#new_operator
NEW Universe {
  name: "Sol"
  closest_planets: ["Mercury", "Venus", "Earth" ]
  star {
    radius_miles: 432690
    age: 4603000000
  }
  constellations: [{
    name: "Libra"
    index: 0
  }, {
    name: "Scorpio"
    index: 1
  }]
  all_planets: (SELECT planets FROM SolTable)
}