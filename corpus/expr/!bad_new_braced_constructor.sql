NEW foo { bar: 1 + }
