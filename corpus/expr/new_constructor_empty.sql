NEW googlesql.examples.music.Chart()
