CREATE LOCALITY GROUP spill_to_hdd
OPTIONS (storage = 'ssd', ssd_to_hdd_spill_timespan = '10d')