GRANT ROLE pii_access, pii_writter TO ROLE hr_manager, hr_director
