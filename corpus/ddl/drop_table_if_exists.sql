drop table if exists foo
