CREATE VECTOR INDEX IF NOT EXISTS hello_vector_index ON hello(embedding)
OPTIONS(distance_type = 'COSINE')