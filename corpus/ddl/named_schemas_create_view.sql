CREATE VIEW sch1.SingerView SQL SECURITY INVOKER
AS Select s.FirstName, s.LastName, s.SingerInfo
   FROM sch1.Singers AS s WHERE s.SingerId = 123456