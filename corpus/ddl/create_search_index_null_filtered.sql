CREATE SEARCH INDEX AlbumsIndex
ON Albums(AlbumTitle_Tokens)
STORING(Genre)
WHERE Genre IS NOT NULL