alter table foo drop row deletion policy
