CREATE VECTOR INDEX hello_vector_index ON hello(embedding)
WHERE embedding IS NOT NULL
OPTIONS(distance_type = 'COSINE')