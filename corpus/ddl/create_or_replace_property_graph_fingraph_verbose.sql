CREATE OR REPLACE PROPERTY GRAPH FinGraph
  NODE TABLES (
    Account AS Account -- element_alias
      KEY (id) -- element_key in node_element_key in element_keys
      -- label_and_property_list
      LABEL DetailedAccount -- LABEL label_name in element_label
        PROPERTIES (create_time, is_blocked, nick_name AS name) -- derived_property_list
      DEFAULT LABEL -- DEFAULT LABEL in element_label
        NO PROPERTIES -- NO PROPERTIES in element_properties
    ,
    Person
      -- no element_keys
      -- no element_label because of direct element_properties
      PROPERTIES ARE ALL COLUMNS EXCEPT (city) -- properties_are
  )
  EDGE TABLES (
    PersonOwnAccount AS PersonOwnAccount
      KEY (id, account_id)
      SOURCE KEY (id) REFERENCES Person -- source_key without column_name_list
      DESTINATION KEY (account_id) REFERENCES Account -- destination_key without column_name_list
      LABEL Owns
        PROPERTIES ALL COLUMNS,
    AccountTransferAccount
      SOURCE KEY (id) REFERENCES Account (id) -- source_key
      DESTINATION KEY (to_id) REFERENCES Account (id) -- destination_key
      LABEL Transfers -- LABEL label_name in element_label
      -- without element_properties
  )