@{unknown_hint=1}
create table tbl(pk int64 primary key)