ALTER CHANGE STREAM change_stream_name SET OPTIONS (retention_period = '1d', value_capture_type = 'OLD_AND_NEW_VALUES')
