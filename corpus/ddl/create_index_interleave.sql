create index foo_bar on foo (
  foo desc
) storing (bar),
  interleave in foobar
