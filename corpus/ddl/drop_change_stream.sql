DROP CHANGE STREAM change_stream_name
