alter index foo add stored column bar
