create table foo (
  foo int64,
  bar int64,
  baz timestamp,
) primary key (),
  interleave in parent foobar,
  row deletion policy ( older_than ( baz, INTERVAL 30 DAY ) )
