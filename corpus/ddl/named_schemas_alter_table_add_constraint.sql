ALTER TABLE sch1.ShoppingCarts ADD CONSTRAINT FKShoppingCartsCustomers FOREIGN KEY(CustomerId, CustomerName)
    REFERENCES sch1.Customers(CustomerId, CustomerName) ON DELETE CASCADE