CREATE TABLE sch1.Singers (
    SingerId INT64 NOT NULL,
    FirstName STRING(1024),
    LastName STRING(1024),
    SingerInfo BYTES(MAX),
) PRIMARY KEY(SingerId)