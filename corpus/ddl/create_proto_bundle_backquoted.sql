-- If you're using a protocol buffer type and any part of the type name is a Spanner reserved keyword,
-- enclose the entire protocol buffer type name in backticks.
CREATE PROTO BUNDLE (
       `examples.shipping.Order`,
       `examples.shipping.Order.Address`,
       `examples.shipping.Order.Item`)