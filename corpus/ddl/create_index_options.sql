CREATE INDEX SingersByFirstLastName ON Singers(FirstName, LastName)
  OPTIONS (locality_group = 'spill_to_hdd')