create table if not exists foo (
    foo int64,
    bar float64 not null,
    baz string(255) not null options(allow_commit_timestamp = null),
    qux string(255) not null as (concat(baz, "a")) stored,
    foreign key (foo) references t2 (t2key1),
    constraint fkname foreign key (foo, bar) references t2 (t2key1, t2key2),
    check (foo > 0),
    constraint cname check (bar > 0),
    corge timestamp not null default (current_timestamp())
) primary key (foo),
  interleave in parent foobar,
  row deletion policy ( older_than ( baz, INTERVAL 30 DAY ) )
