-- https://cloud.google.com/spanner/docs/full-text-search/search-indexes#search-index-schema-definitions
CREATE TABLE Albums (
                        AlbumId STRING(MAX) NOT NULL,
                        SingerId INT64 NOT NULL,
                        ReleaseTimestamp INT64 NOT NULL,
                        AlbumTitle STRING(MAX),
                        Rating FLOAT64,
                        AlbumTitle_Tokens TOKENLIST AS (TOKENIZE_FULLTEXT(AlbumTitle)) HIDDEN,
                        Rating_Tokens TOKENLIST AS (TOKENIZE_NUMBER(Rating)) HIDDEN
) PRIMARY KEY(AlbumId)