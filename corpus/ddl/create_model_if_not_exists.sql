CREATE MODEL GeminiPro IF NOT EXISTS
INPUT (prompt STRING(MAX))
OUTPUT (content STRING(MAX))
REMOTE OPTIONS (
  endpoint = '//aiplatform.googleapis.com/projects/fake-project/locations/asia-northeast1/publishers/google/models/gemini-pro',
  default_batch_size = 1
)