alter table foo drop constraint bar
