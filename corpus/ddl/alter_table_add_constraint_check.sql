alter table foo add constraint cname check (c1 > 0)
