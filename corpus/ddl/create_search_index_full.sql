CREATE SEARCH INDEX AlbumsIndexFull
ON Albums(Title_Tokens, Studio_Tokens)
STORING(Genre)
PARTITION BY SingerId
ORDER BY ReleaseTimestamp DESC
WHERE Genre IS NOT NULL AND ReleaseTimestamp IS NOT NULL
, INTERLEAVE IN Singers
OPTIONS(sort_order_sharding=true)