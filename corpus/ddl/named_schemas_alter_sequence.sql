ALTER SEQUENCE sch1.sequence
    SET OPTIONS (skip_range_min=1, skip_range_max=1234567)