drop index if exists foo_bar
