CREATE CHANGE STREAM change_stream_name FOR table_name1(column1, column2), table_name2(column1, column2)
OPTIONS(retention_period = '1d', value_capture_type = 'NEW_ROW')
