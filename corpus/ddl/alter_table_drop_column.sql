alter table foo drop column bar
