ALTER CHANGE STREAM change_stream_name SET FOR table_name1(column1, column2), table_name2(column1, column2)
