create view singernames
sql security `invoker`
as select
    singers.singerid as singerid,
    singers.firstname || ' ' || singers.lastname as name
from singers
