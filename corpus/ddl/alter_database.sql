ALTER DATABASE dbname SET OPTIONS (
    optimizer_version=2,
    optimizer_statistics_package='auto_20191128_14_47_22UTC',
    version_retention_period='7d',
    enable_key_visualizer=true,
    default_leader='europe-west1'
  )