create index foo_bar on foo (
  bar desc,
  baz asc,
)
