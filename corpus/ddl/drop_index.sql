drop index foo_bar
