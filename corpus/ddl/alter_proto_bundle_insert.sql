ALTER PROTO BUNDLE INSERT (
  examples.shipping.OrderHistory
)