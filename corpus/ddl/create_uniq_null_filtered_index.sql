create unique null_filtered index foo_bar on foo (foo)
