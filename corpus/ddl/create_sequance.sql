CREATE SEQUENCE IF NOT EXISTS MySequence OPTIONS (
    sequence_kind='bit_reversed_positive',
    skip_range_min = 1,
    skip_range_max = 1000,
    start_with_counter = 50)
