-- no optional clauses
CREATE SEARCH INDEX AlbumsIndex
  ON Albums(AlbumTitle_Tokens)