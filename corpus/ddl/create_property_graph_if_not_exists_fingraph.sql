CREATE PROPERTY GRAPH IF NOT EXISTS FinGraph
  NODE TABLES (
    Account,
    Person
  )
  EDGE TABLES (
    PersonOwnAccount
      SOURCE KEY (id) REFERENCES Person (id)
      DESTINATION KEY (account_id) REFERENCES Account (id)
      LABEL Owns,
    AccountTransferAccount
      SOURCE KEY (id) REFERENCES Account (id)
      DESTINATION KEY (to_id) REFERENCES Account (id)
      LABEL Transfers
  )