create index if not exists foo_bar on foo (bar)
