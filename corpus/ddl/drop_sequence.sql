DROP SEQUENCE my_sequence
