create view singernames
sql security `definer`
as select
    singers.singerid as singerid,
    singers.firstname || ' ' || singers.lastname as name
from singers
