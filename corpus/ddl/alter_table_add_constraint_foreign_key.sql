alter table foo add constraint fkname foreign key (foo, bar) references t2 (t2key1, t2key2)
