CREATE MODEL MyClassificationModel
INPUT (
  length FLOAT64,
  material STRING(MAX),
  tag_array ARRAY<STRING(MAX)>
)
OUTPUT (
  scores ARRAY<FLOAT64>,
  classes ARRAY<STRING(MAX)>
)
REMOTE
OPTIONS (
  endpoint = '//aiplatform.googleapis.com/projects/PROJECT/locations/LOCATION/endpoints/ENDPOINT_ID'
)