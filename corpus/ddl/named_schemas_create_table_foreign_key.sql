CREATE TABLE sch1.ShoppingCarts (
  CartId INT64 NOT NULL,
  CustomerId INT64 NOT NULL,
  CustomerName STRING(MAX) NOT NULL,
  CONSTRAINT FKShoppingCartsCustomers FOREIGN KEY(CustomerId, CustomerName)
    REFERENCES sch1.Customers(CustomerId, CustomerName) ON DELETE CASCADE,
) PRIMARY KEY(CartId)