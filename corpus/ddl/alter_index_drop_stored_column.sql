alter index foo drop stored column bar
