CREATE CHANGE STREAM change_stream_name FOR table_name1, table_name2
