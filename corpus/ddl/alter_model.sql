ALTER MODEL MyClassificationModel
SET OPTIONS (
    endpoints = [
        '//aiplatform.googleapis.com/projects/aaa/locations/tl/endpoints/aaa',
        '//aiplatform.googleapis.com/projects/aaa/locations/tl/endpoints/bbb'
    ],
    default_batch_size = 100
)