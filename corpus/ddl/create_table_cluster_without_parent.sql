create table foo (
  foo int64,
  bar int64
) primary key (foo, bar),
  interleave in foobar
