create table foo (
  foo int64,
  bar int64
) primary key (),
  interleave in parent foobar
