alter table foo add column if not exists baz string(max) not null
