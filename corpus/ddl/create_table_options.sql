CREATE TABLE Singers (
  SingerId   INT64 NOT NULL,
  FirstName  STRING(1024),
  LastName   STRING(1024),
  Awards     ARRAY<STRING(MAX)> OPTIONS (locality_group = 'spill_to_hdd')
) PRIMARY KEY (SingerId), OPTIONS (locality_group = 'ssd_only')