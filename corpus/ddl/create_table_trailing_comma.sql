create table foo (
  foo int64,
  bar int64,
) primary key(
  foo asc,
  bar desc,
)
