CREATE ROLE hr_manager
