DROP ROLE hr_manager
