REVOKE ROLE pii_access, pii_writter FROM ROLE hr_manager, hr_director
