GRANT SELECT(name, level, location), UPDATE(location) ON TABLE employees, contractors TO ROLE hr_manager, hr_member
