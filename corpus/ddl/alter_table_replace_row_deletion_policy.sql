alter table foo replace row deletion policy ( older_than ( bar, interval 30 day ))
