create table foo (
  foo int64,
  bar float64 not null,
  baz string(255) not null options(allow_commit_timestamp = null),
  qux string(255) not null as (concat(baz, "a")) stored,
  foreign key (foo) references t2 (t2key1),
  foreign key (bar) references t2 (t2key2) on delete cascade,
  foreign key (baz) references t2 (t2key3) on delete no action,
  constraint fkname foreign key (foo, bar) references t2 (t2key1, t2key2),
  constraint fkname2 foreign key (foo, bar) references t2 (t2key1, t2key2) on delete cascade enforced,
  constraint fkname3 foreign key (foo, bar) references t2 (t2key1, t2key2) not enforced,
  check (foo > 0),
  constraint cname check (bar > 0),
  quux json,
  corge timestamp not null default (current_timestamp())
) primary key (foo, bar)
