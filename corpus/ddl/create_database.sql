create database foo_bar_baz
