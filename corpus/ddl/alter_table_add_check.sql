alter table foo add check (c1 > 0)
