CREATE CHANGE STREAM change_stream_name FOR table_name
