CREATE SEQUENCE sch1.sequence OPTIONS (
  sequence_kind = 'bit_reversed_positive'
)