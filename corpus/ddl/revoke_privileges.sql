REVOKE SELECT(name, level, location), UPDATE(location) ON TABLE employees, contractors FROM ROLE hr_manager, hr_member
