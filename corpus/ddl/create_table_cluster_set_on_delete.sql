create table foo (
  foo int64
) primary key (foo),
  interleave in parent foobar
             on delete cascade