create table foo (
  foo int64,
  bar int64,
  baz timestamp,
) primary key (),
  row deletion policy ( older_than ( baz, INTERVAL 30 DAY ) )
