ALTER MODEL IF EXISTS MyClassificationModel
SET OPTIONS (
    endpoints = [
        '//aiplatform.googleapis.com/projects/aaa/locations/tl/endpoints/aaa',
        '//aiplatform.googleapis.com/projects/aaa/locations/tl/endpoints/bbb'
    ],
    default_batch_size = 100
)