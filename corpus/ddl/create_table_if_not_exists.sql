create table if not exists foo (
  foo int64,
  bar float64 not null,
) primary key (foo, bar)
