create index foo_bar on foo (
  bar asc
) storing (foo, baz)
