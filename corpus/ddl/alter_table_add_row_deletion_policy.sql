alter table foo add row deletion policy ( older_than ( bar, interval 30 day ))
