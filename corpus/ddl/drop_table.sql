drop table foo
