create table foo (
    id int64 not null auto_increment primary key
)
