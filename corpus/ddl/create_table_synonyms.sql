CREATE TABLE Singers (
    SingerId INT64 NOT NULL,
    SingerName STRING(1024),
    SYNONYM (Artists)
) PRIMARY KEY (SingerId)