alter table foo add foreign key (bar) references t2 (t2key1)
