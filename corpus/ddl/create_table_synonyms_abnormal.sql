-- It is still valid CREATE TABLE statement.
CREATE TABLE Singers (
    SYNONYM (Ignored),
    SingerId INT64 NOT NULL,
    SingerName STRING(1024),
    SYNONYM (Artists)
) PRIMARY KEY (SingerId)