insert foo (foo, bar)
values (1, default)