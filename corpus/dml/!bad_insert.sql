insert foo (foo, bar, baz)
vales (1, 2, 3),
      (4, 5, 6)