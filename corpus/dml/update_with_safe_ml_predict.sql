-- https://cloud.google.com/spanner/docs/backfill-embeddings?hl=en#backfill
UPDATE products
SET
    products.desc_embed = (
        SELECT embeddings.values
        FROM SAFE.ML.PREDICT(
                MODEL gecko_model,
                (SELECT products.description AS content)
             ) @{remote_udf_max_rows_per_rpc=200}
    ),
    products.desc_embed_model_version = 3
WHERE products.desc_embed IS NULL