@{pdml_max_parallelism=1}
insert into foo@{force_index=_base_table} (foo, bar, baz)
values (1, 2, 3),
       (4, 5, 6)