@{pdml_max_parallelism=1}
update foo set invalid where foo = 1