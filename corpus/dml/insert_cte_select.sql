insert foo (foo, bar)
with cte AS (select 1 as foo, 2 as bar)
select *