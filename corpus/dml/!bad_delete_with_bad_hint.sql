@{invalid}
delete foo where foo = 1 and bar = 2