insert foo (foo, bar)
select * from unnest([(1, 2), (3, 4)])