@{pdml_max_parallelism=1}
delete foo filter foo = 1 and bar = 2