insert foo (foo, bar, baz)
values (1, 2, 3),
       (4, 5, 6)