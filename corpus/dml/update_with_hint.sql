@{pdml_max_parallelism=1}
update foo@{force_index=_base_table} set foo = bar, bar = foo, baz = DEFAULT where foo = 1