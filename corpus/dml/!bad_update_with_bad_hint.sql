@{invalid}
update foo set foo = bar, bar = foo, baz = DEFAULT where foo = 1
