update Albums set MarketingBudget = MarketingBudget + 100
where (SingerId, AlbumId) = (select as struct SingerId, AlbumId from Albums where AlbumTitle like "A%" for update)