// Package known parses KNOWN_FINDINGS.txt (committed, never written at run time).
//
// Line forms:
//
//	known: property=C01 sig=<sig> entry=<entry> witness=<go-quoted string> :: description
//	known: property=C01 sig=<sig> entry=<entry> input=<go-quoted string> :: description   (identified by exact input)
//	fixed: property=C03 commit=<sha> :: description
//
// A "witness" finding suppresses every violation of that property with the same
// root-cause signature; an "input" finding suppresses only the violation with that
// signature on exactly that input. "fixed" lines suppress nothing.
package known

import (
	"bufio"
	"fmt"
	"os"
	"strconv"
	"strings"
)

type Finding struct {
	Property string
	Sig      string
	Entry    string
	Witness  string
	ByInput  bool
	Desc     string
	Line     int
}

type File struct {
	Known []Finding
	Fixed []string
}

func Load(path string) (*File, error) {
	f, err := os.Open(path)
	if err != nil {
		if os.IsNotExist(err) {
			return &File{}, nil
		}
		return nil, err
	}
	defer f.Close()
	out := &File{}
	sc := bufio.NewScanner(f)
	sc.Buffer(make([]byte, 1<<20), 1<<20)
	ln := 0
	for sc.Scan() {
		ln++
		line := strings.TrimSpace(sc.Text())
		if line == "" || strings.HasPrefix(line, "#") {
			continue
		}
		switch {
		case strings.HasPrefix(line, "fixed:"):
			out.Fixed = append(out.Fixed, line)
		case strings.HasPrefix(line, "known:"):
			body := strings.TrimSpace(strings.TrimPrefix(line, "known:"))
			desc := ""
			if i := strings.Index(body, " :: "); i >= 0 {
				desc = body[i+4:]
				body = body[:i]
			}
			fd := Finding{Desc: desc, Line: ln}
			rest := body
			for rest != "" {
				rest = strings.TrimLeft(rest, " ")
				eq := strings.IndexByte(rest, '=')
				if eq < 0 {
					return nil, fmt.Errorf("line %d: bad field %q", ln, rest)
				}
				key := rest[:eq]
				rest = rest[eq+1:]
				var val string
				if strings.HasPrefix(rest, "\"") {
					q, err := strconv.QuotedPrefix(rest)
					if err != nil {
						return nil, fmt.Errorf("line %d: %v", ln, err)
					}
					val, err = strconv.Unquote(q)
					if err != nil {
						return nil, fmt.Errorf("line %d: %v", ln, err)
					}
					rest = rest[len(q):]
				} else {
					sp := strings.IndexByte(rest, ' ')
					if sp < 0 {
						sp = len(rest)
					}
					val = rest[:sp]
					rest = rest[sp:]
				}
				switch key {
				case "property":
					fd.Property = val
				case "sig":
					fd.Sig = val
				case "entry":
					fd.Entry = val
				case "witness":
					fd.Witness = val
				case "input":
					fd.Witness = val
					fd.ByInput = true
				default:
					return nil, fmt.Errorf("line %d: unknown key %q", ln, key)
				}
			}
			if fd.Property == "" || fd.Sig == "" || fd.Entry == "" {
				return nil, fmt.Errorf("line %d: property, sig and entry are required", ln)
			}
			out.Known = append(out.Known, fd)
		default:
			return nil, fmt.Errorf("line %d: unknown line kind", ln)
		}
	}
	return out, sc.Err()
}

// For returns the findings of one property.
func (f *File) For(prop string) []Finding {
	var out []Finding
	for _, k := range f.Known {
		if k.Property == prop {
			out = append(out, k)
		}
	}
	return out
}

// Match reports whether a violation (sig, entry, input) is covered by finding k.
func (k Finding) Match(sig, entry, input string) bool {
	if k.Sig != sig {
		// a finding known for the untagged signature is known in every tagged sub-workload too (not the converse)
		i := strings.LastIndexByte(sig, '@')
		if i < 0 || k.ByInput || k.Sig != sig[:i] {
			return false
		}
	}
	if k.ByInput {
		return k.Witness == input && k.Entry == entry
	}
	return true
}
