package mon

import "strings"

// queryLeads are query expressions that can be the parenthesised leading operand of a larger query expression;
// queryWraps build that larger expression; querySlots are the places where the grammar takes a query expression.
// Deciding whether "(" opens a sub-query, a parenthesised query operand or a parenthesised expression needs
// look-ahead in the parser, and that look-ahead is per (slot, wrap, lead) combination.
var queryLeads = []string{
	"SELECT 1", "SELECT * FROM t", "FROM t", "WITH a AS (SELECT 1) SELECT * FROM a", "SELECT 1 UNION ALL SELECT 2", "FROM t |> WHERE TRUE", "(SELECT 1)", "(WITH a AS (SELECT 1) SELECT * FROM a)", "(FROM t)",
}

var queryWraps = []string{
	"%s", "(%s)", "(%s) UNION ALL (SELECT 2)", "(%s) UNION ALL SELECT 2", "(%s) INTERSECT DISTINCT (SELECT 2)", "(%s) EXCEPT ALL (SELECT 2)", "(%s) ORDER BY 1", "(%s) LIMIT 1", "(%s) LIMIT 1 OFFSET 2",
	"((%s) UNION ALL (SELECT 2)) LIMIT 1", "(%s) |> WHERE TRUE", "(%s) |> SELECT 1 |> WHERE TRUE",
}

var querySlots = []struct{ entry, tmpl string }{
	{"query", "%s"}, {"statement", "%s"}, {"query", "SELECT (%s)"}, {"query", "SELECT * FROM (%s)"}, {"query", "SELECT * FROM (%s) AS x"}, {"query", "SELECT 1 IN (%s)"}, {"query", "SELECT ARRAY(%s)"},
	{"query", "SELECT EXISTS(%s)"}, {"query", "SELECT * FROM t WHERE a = (%s)"}, {"query", "WITH x AS (%s) SELECT 1"}, {"query", "FROM t |> WHERE a IN (%s)"}, {"query", "SELECT f((%s))"},
	{"expr", "(%s)"}, {"expr", "ARRAY(%s)"}, {"expr", "EXISTS(%s)"}, {"expr", "a IN (%s)"}, {"expr", "1 + (%s)"},
	{"dml", "INSERT INTO t (a) %s"}, {"dml", "UPDATE t SET a = (%s) WHERE TRUE"}, {"dml", "DELETE FROM t WHERE a IN (%s)"},
	{"ddl", "CREATE VIEW v SQL SECURITY INVOKER AS %s"}, {"statement", "CALL p((%s))"},
}

// querySlotMatrix: every lead under every wrap in every slot.
func querySlotMatrix(c *Ctx, f func(entry, input string)) {
	idx := 0
	for _, sl := range querySlots {
		for _, w := range queryWraps {
			for _, l := range queryLeads {
				// left out, because the tree rejects it and it is carried as a known finding by representative input
				// (KNOWN_FINDINGS.txt): a table sub-query that is parenthesised as a whole (`FROM ((SELECT 1))`, K8).
				// `(query) |> operator` in sub-query positions (K9) was found with this matrix and has been repaired.
				if strings.HasPrefix(sl.tmpl, "SELECT * FROM (%s)") && (w == "(%s)" || (w == "%s" && strings.HasPrefix(l, "("))) {
					continue
				}
				if c.Mine(idx) {
					f(sl.entry, strings.ReplaceAll(sl.tmpl, "%s", strings.ReplaceAll(w, "%s", l)))
					c.Count("query_slot_inputs", 1)
				}
				idx++
			}
		}
	}
}
