package mon

import "strings"

// valueSlots are places where the grammar allows any expression (bracketed or keyword-delimited slots, so no
// precedence interaction with the neighbours); slotAtoms are valid primary / operator expressions, among them field
// paths whose components are reserved words or digit-leading (legal after a dot).
var valueSlots = []struct{ entry, tmpl string }{
	{"expr", "(%s)"}, {"expr", "f(%s)"}, {"expr", "f(1, %s)"}, {"expr", "f(x => %s)"}, {"expr", "[%s]"}, {"expr", "[1, %s]"}, {"expr", "IF(%s, 1, 2)"}, {"expr", "IF(a, %s, %s)"},
	{"expr", "CASE WHEN %s THEN 1 END"}, {"expr", "CASE WHEN a THEN %s ELSE %s END"}, {"expr", "CASE %s WHEN 1 THEN 2 END"}, {"expr", "CAST(%s AS INT64)"}, {"expr", "EXTRACT(DAY FROM %s)"},
	{"expr", "STRUCT(%s AS x)"}, {"expr", "STRUCT(1, %s)"}, {"expr", "NEW T(%s AS x)"}, {"expr", "{a: %s}"}, {"expr", "NEW T {a: 1, b: %s}"}, {"expr", "WITH(a AS 1, %s)"}, {"expr", "WITH(a AS %s, a)"}, {"expr", "WITH(a AS %s, %s)"},
	{"expr", "ARRAY(SELECT %s)"}, {"expr", "(SELECT %s)"}, {"expr", "EXISTS(SELECT %s)"}, {"expr", "a[%s]"}, {"expr", "a[OFFSET(%s)]"}, {"expr", "a IN (%s)"}, {"expr", "a IN (1, %s)"}, {"expr", "REPLACE_FIELDS(a, %s AS b)"},
	{"query", "SELECT %s"}, {"query", "SELECT %s FROM t"}, {"query", "SELECT 1, %s AS x FROM t"}, {"query", "SELECT * FROM t WHERE %s"}, {"query", "SELECT 1 FROM t GROUP BY %s"}, {"query", "SELECT 1 FROM t ORDER BY %s DESC"},
	{"query", "SELECT 1 FROM t HAVING %s"}, {"query", "SELECT * FROM t JOIN u ON %s"}, {"query", "SELECT * FROM UNNEST(%s)"}, {"query", "SELECT * REPLACE (%s AS a) FROM t"}, {"query", "FROM t |> WHERE %s"}, {"query", "FROM t |> SELECT %s"},
	{"dml", "INSERT INTO t (a) VALUES (%s)"}, {"dml", "UPDATE t SET a = %s WHERE TRUE"}, {"dml", "UPDATE t SET a = 1 WHERE %s"}, {"dml", "DELETE FROM t WHERE %s"}, {"dml", "DELETE FROM t WHERE TRUE THEN RETURN %s"},
	{"ddl", "CREATE TABLE t (a INT64 DEFAULT (%s)) PRIMARY KEY (a)"}, {"ddl", "CREATE TABLE t (a INT64 AS (%s) STORED) PRIMARY KEY (a)"}, {"ddl", "CREATE TABLE t (a INT64, CONSTRAINT c CHECK (%s)) PRIMARY KEY (a)"},
	{"ddl", "CREATE VIEW v SQL SECURITY INVOKER AS SELECT %s"}, {"statement", "CALL p(%s)"},
}

var slotAtoms = append([]string{
	"t.select", "t.from.where", "t.all", "t.1x", "t.order.by", "@p.select", "f(1).select", "(t).all", "a[0].group", "t.`select`", "t.SELECT", "x.y.z.w", "t.null", "t.true.false", "t.*", "t.union", "t.interval", "t.case",
}, exprAtoms...)

// valueSlotMatrix: every atom in every value slot.
func valueSlotMatrix(c *Ctx, f func(entry, input string)) {
	idx := 0
	for _, sl := range valueSlots {
		for _, a := range slotAtoms {
			if a == "t.*" && !strings.HasPrefix(sl.tmpl, "SELECT %s") && sl.tmpl != "FROM t |> SELECT %s" {
				continue
			}
			if c.Mine(idx) {
				f(sl.entry, strings.ReplaceAll(sl.tmpl, "%s", a))
				c.Count("value_slot_inputs", 1)
			}
			idx++
		}
	}
}
