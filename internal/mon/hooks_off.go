//go:build !verif

package mon

import (
	memefish "github.com/cloudspannerecosystem/memefish"
)

const hooksEnabled = false

func setBudget(n int64)                  {}
func steps() int64                       { return 0 }
func isBudgetPanic(r any) bool           { return false }
func nextTokenRecover(l *memefish.Lexer) { panic("hooks unavailable") }
func tables() map[string][]string        { return nil }
