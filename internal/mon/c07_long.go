package mon

import (
	"fmt"
	"strings"

	"github.com/cloudspannerecosystem/memefish/ast"
)

// Long operator chains: the associativity rule has no size limit, so a chain of thousands of operands must still be
// one left spine (binary operators), one right-nested tower (prefix operators) or one left-nested tower (postfix
// operators). The spine is checked iteratively; entry "chain", input = chain description + operand count.

func identNamed(e ast.Node, name string) bool {
	switch n := e.(type) {
	case *ast.Ident:
		return n.Name == name
	}
	return false
}

// checkLeftSpine: e must be B(op[k], B(..., c0, right(1)) ..., right(k)) where right(i) is checked by rightOK.
func checkLeftSpine(e ast.Expr, n int, opAt func(i int) string, rightOK func(i int, r ast.Expr) bool) string {
	for i := n - 1; i >= 1; i-- {
		b, ok := e.(*ast.BinaryExpr)
		if !ok {
			return fmt.Sprintf("spine node for operator %d is %T, not *ast.BinaryExpr", i, e)
		}
		if string(b.Op) != opAt(i) {
			return fmt.Sprintf("operator %d on the spine is %q, want %q", i, b.Op, opAt(i))
		}
		if !rightOK(i, b.Right) {
			s, _ := SQLOf(b.Right)
			if len(s) > 60 {
				s = s[:60] + "…"
			}
			return fmt.Sprintf("right operand of operator %d is %T %q: the chain is not left-associative there", i, b.Right, s)
		}
		e = b.Left
	}
	if !identNamed(e, "c0") {
		return fmt.Sprintf("leftmost operand is %T, want identifier c0", e)
	}
	return ""
}

func CheckC07Chain(c *Ctx, desc string, n int) {
	var sb strings.Builder
	var verify func(e ast.Expr) string
	sqlExact := true
	parts := strings.Split(desc, " ")
	switch parts[0] {
	case "bin": // bin OP: c0 OP c1 OP ... c(n-1)
		op := strings.ReplaceAll(parts[1], "_", " ")
		for i := 0; i < n; i++ {
			if i > 0 {
				sb.WriteString(" " + op + " ")
			}
			fmt.Fprintf(&sb, "c%d", i)
		}
		verify = func(e ast.Expr) string {
			return checkLeftSpine(e, n, func(int) string { return op }, func(i int, r ast.Expr) bool { return identNamed(r, fmt.Sprintf("c%d", i)) })
		}
	case "mix": // mix LOW HIGH: c0 LOW c1 HIGH d1 LOW c2 HIGH d2 ...
		lo, hi := parts[1], parts[2]
		sb.WriteString("c0")
		for i := 1; i < n; i++ {
			fmt.Fprintf(&sb, " %s c%d %s d%d", lo, i, hi, i)
		}
		verify = func(e ast.Expr) string {
			return checkLeftSpine(e, n, func(int) string { return lo }, func(i int, r ast.Expr) bool {
				b, ok := r.(*ast.BinaryExpr)
				return ok && string(b.Op) == hi && identNamed(b.Left, fmt.Sprintf("c%d", i)) && identNamed(b.Right, fmt.Sprintf("d%d", i))
			})
		}
	case "mix2": // mix2 A B (same level): c0 A c1 B c2 A c3 ...: one left spine with alternating operators
		a, b := parts[1], parts[2]
		ops := []string{b, a}
		sb.WriteString("c0")
		for i := 1; i < n; i++ {
			fmt.Fprintf(&sb, " %s c%d", ops[i%2], i)
		}
		verify = func(e ast.Expr) string {
			return checkLeftSpine(e, n, func(i int) string { return ops[i%2] }, func(i int, r ast.Expr) bool { return identNamed(r, fmt.Sprintf("c%d", i)) })
		}
	case "pre": // pre OP: OP OP ... OP c0
		op := parts[1]
		sqlExact = false
		for i := 0; i < n; i++ {
			sb.WriteString(op + " ")
		}
		sb.WriteString("c0")
		verify = func(e ast.Expr) string {
			for i := 0; i < n; i++ {
				u, ok := e.(*ast.UnaryExpr)
				if !ok || string(u.Op) != op {
					return fmt.Sprintf("level %d of the prefix tower is %T", i, e)
				}
				e = u.Expr
			}
			if !identNamed(e, "c0") {
				return fmt.Sprintf("innermost operand is %T, want identifier c0", e)
			}
			return ""
		}
	case "idx": // (c0)[0][1]...[n-1]
		sb.WriteString("c0")
		for i := 0; i < n; i++ {
			fmt.Fprintf(&sb, "[%d]", i)
		}
		verify = func(e ast.Expr) string {
			for i := n - 1; i >= 0; i-- {
				x, ok := e.(*ast.IndexExpr)
				if !ok {
					return fmt.Sprintf("level %d of the subscript tower is %T", i, e)
				}
				if l, ok := x.Index.(*ast.ExprArg); ok {
					if il, ok := l.Expr.(*ast.IntLiteral); !ok || il.Value != fmt.Sprint(i) {
						return fmt.Sprintf("subscript %d holds %T", i, l.Expr)
					}
				}
				e = x.Expr
			}
			if !identNamed(e, "c0") {
				return fmt.Sprintf("innermost operand is %T, want identifier c0", e)
			}
			return ""
		}
	default:
		return
	}
	text := sb.String()
	in := fmt.Sprintf("%s %d", desc, n) // the text is regenerated from this at replay
	c.Journal("chain", in)
	p := Parse("expr", text)
	c.Eval()
	c.Count("long_chains", 1)
	c.MaxF("max_chain_operands", float64(n))
	if p.Panic != nil {
		c.Count("panics_left_to_C03", 1)
		return
	}
	if p.Err != nil {
		c.Violate("c07:chain-rejected:"+parts[0], "chain", in, fmt.Sprintf("%s chain of %d operands is rejected: %v", desc, n, firstLine(p.Err.Error())))
		return
	}
	root, _ := p.Root().(ast.Expr)
	if bad := verify(root); bad != "" {
		c.Violate("c07:chain-grouping:"+parts[0], "chain", in, fmt.Sprintf("%s chain of %d operands: %s", desc, n, bad))
		return
	}
	if sqlExact {
		s, pv := SQLOf(p.Root())
		if pv != nil {
			c.Count("sql_panics_left_to_C04", 1)
			return
		}
		if strings.ReplaceAll(s, " ", "") != strings.ReplaceAll(text, " ", "") {
			k := 0
			for k < len(s) && k < len(text) && s[k] == text[k] {
				k++
			}
			c.Violate("c07:chain-sql:"+parts[0], "chain", in, fmt.Sprintf("%s chain of %d operands: SQL() differs from the source near byte %d", desc, n, k))
		}
	}
}

func firstLine(s string) string {
	if i := strings.IndexByte(s, '\n'); i >= 0 {
		s = s[:i]
	}
	if len(s) > 200 {
		s = s[:200]
	}
	return s
}

func c07ChainDescs() []string {
	var ds []string
	for _, op := range c07Ops {
		if op.kind == kBin && op.level != lvCmp {
			ds = append(ds, "bin "+strings.ReplaceAll(op.sym, " ", "_"))
		}
	}
	ds = append(ds, "mix OR AND", "mix + *", "mix - /", "mix | ^", "mix ^ &", "mix & <<", "mix >> +", "mix + ||",
		"mix2 + -", "mix2 * /", "mix2 << >>", "mix2 / ||",
		"pre NOT", "pre -", "pre ~", "pre +", "idx")
	return ds
}

func c07LongChains(c *Ctx) {
	sizes := []int{257, 4099, 12000}
	if c.Thorough() {
		sizes = append(sizes, 70001)
	}
	idx := 0
	for _, d := range c07ChainDescs() {
		for _, n := range sizes {
			if strings.HasPrefix(d, "pre") || d == "idx" {
				n = min(n, 12000) // recursion in the parser and in SQL(): one frame per level
			}
			if c.Mine(idx) {
				CheckC07Chain(c, d, n)
			}
			idx++
		}
	}
}
