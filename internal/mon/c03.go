package mon

import (
	"fmt"
	"sort"
	"strings"

	memefish "github.com/cloudspannerecosystem/memefish"
	"github.com/cloudspannerecosystem/memefish/token"

	"verif/internal/astx"
	"verif/internal/gen"
	"verif/internal/reflex"
)

// topFrame extracts the innermost memefish function from a panic stack.
func topFrame(stack string) string {
	lines := strings.Split(stack, "\n")
	seenPanic := false
	for _, l := range lines {
		if strings.HasPrefix(l, "panic(") {
			seenPanic = true
			continue
		}
		if !seenPanic || strings.HasPrefix(l, "\t") {
			continue
		}
		if strings.Contains(l, "cloudspannerecosystem/memefish") {
			f := l
			if i := strings.LastIndex(f, "("); i > 0 {
				f = f[:i]
			}
			if i := strings.LastIndex(f, "/"); i >= 0 {
				f = f[i+1:]
			}
			return f
		}
	}
	return "?"
}

func checkErrTyped(c *Ctx, entry, input string, err error) {
	if err == nil {
		return
	}
	me, ok := err.(memefish.MultiError)
	if !ok {
		c.Violate("c03:error-type:"+fmt.Sprintf("%T", err), entry, input, fmt.Sprintf("error is %T, not memefish.MultiError: %v", err, err))
		return
	}
	if len(me) == 0 {
		c.Violate("c03:empty-multierror", entry, input, "non-nil MultiError with 0 elements")
		return
	}
	for i, e := range me {
		if e == nil {
			c.Violate("c03:nil-error-element", entry, input, fmt.Sprintf("MultiError[%d] is nil", i))
			return
		}
	}
}

// CheckC03 runs one (entry, input) case.
func CheckC03(c *Ctx, entry, input string) {
	c.Journal(entry, input)
	c.Eval()
	switch entry {
	case "lex":
		var lexErr error
		eof := false
		calls := 0
		pv, st := callSUT(func() {
			l := &memefish.Lexer{File: &token.File{FilePath: FilePath, Buffer: input}}
			for i := 0; i < len(input)+2; i++ {
				calls++
				if err := l.NextToken(); err != nil {
					lexErr = err
					return
				}
				if l.Token.Kind == token.TokenEOF {
					eof = true
					return
				}
			}
		})
		if pv != nil {
			c.Violate("c03:panic:lex:"+PanicClass(pv)+":"+topFrame(st), entry, input, fmt.Sprintf("NextToken panics: %v", pv))
			return
		}
		if lexErr != nil {
			if e, ok := lexErr.(*memefish.Error); !ok || e == nil {
				c.Violate("c03:lex-error-type", entry, input, fmt.Sprintf("NextToken error is %T", lexErr))
			}
			c.Count("lex_errors", 1)
			return
		}
		if !eof {
			c.Violate("c03:lex-no-progress", entry, input, fmt.Sprintf("no <eof> after %d NextToken calls on %d bytes", calls, len(input)))
		}
	case "split":
		var err error
		var res []*memefish.RawStatement
		pv, st := callSUT(func() { res, err = memefish.SplitRawStatements(FilePath, input) })
		if pv != nil {
			c.Violate("c03:panic:split:"+PanicClass(pv)+":"+topFrame(st), entry, input, fmt.Sprintf("SplitRawStatements panics: %v", pv))
			return
		}
		if err != nil {
			if e, ok := err.(*memefish.Error); !ok || e == nil {
				c.Violate("c03:split-error-type", entry, input, fmt.Sprintf("SplitRawStatements error is %T", err))
			}
			c.Count("split_errors", 1)
			return
		}
		for i, r := range res {
			if r == nil {
				c.Violate("c03:split-nil-piece", entry, input, fmt.Sprintf("piece %d is nil", i))
			}
		}
	default:
		p := Parse(entry, input)
		if c.Hooks {
			t := float64(len(input) + 16)
			c.MaxF("max_steps_over_(bytes+16)^2", float64(p.Steps)/(t*t))
			c.MaxF("max_steps_per_byte", float64(p.Steps)/float64(len(input)+1))
		}
		if p.Budget {
			c.Violate("c03:step-budget", entry, input, fmt.Sprintf("more than %d token fetches for %d bytes: non-terminating or super-quadratic", StepBudget(len(input)), len(input)))
			return
		}
		if p.Panic != nil {
			c.Violate("c03:panic:parse:"+PanicClass(p.Panic)+":"+topFrame(p.Stack), entry, input, fmt.Sprintf("Parse(%s) panics: %v", entry, p.Panic))
			return
		}
		checkErrTyped(c, entry, input, p.Err)
		if p.Err != nil {
			c.Count("parse_errors", 1)
		} else {
			c.Count("parse_ok", 1)
		}
		if IsListEntry(entry) {
			for i, n := range p.Roots {
				if astx.IsNilNode(n) {
					c.Violate("c03:nil-node", entry, input, fmt.Sprintf("element %d of the returned list is nil", i))
				}
			}
		} else if len(p.Roots) != 1 || astx.IsNilNode(p.Roots[0]) {
			c.Violate("c03:nil-node", entry, input, fmt.Sprintf("Parse(%s) returned a nil node (err=%v)", entry, p.Err))
		}
	}
}

func RunC03(c *Ctx) {
	ns := max(c.NShards, 1)
	// 1. exhaustive alphabet strings through every entry point
	L := c.Pick(4, 5)
	total := gen.EnumCount(L)
	buf := make([]byte, 0, 8)
	for i := c.Shard; i < total; i += ns {
		buf = gen.EnumString(i, buf)
		s := string(buf)
		for _, e := range allEntriesPlus {
			CheckC03(c, e, s)
		}
	}
	c.Res.Exhaustive[fmt.Sprintf("alphabet24_len<=%d_x_11_entry_points", L)] = true
	c.Count("distinct_enum", int64(total/ns))
	// 1b. one more symbol for lexer and splitter only
	L2 := L + 1
	total2 := gen.EnumCount(L2)
	for i := total + c.Shard; i < total2; i += ns {
		buf = gen.EnumString(i, buf)
		s := string(buf)
		CheckC03(c, "lex", s)
		CheckC03(c, "split", s)
	}
	c.Res.Exhaustive[fmt.Sprintf("alphabet24_len<=%d_x_lex_split", L2)] = true
	// 2. literal matrix and number forms, alone and embedded, first token and after ';'
	idx := 0
	gen.LiteralMatrix(func(s string) {
		if c.Mine(idx) {
			CheckC03(c, "lex", s)
			CheckC03(c, "split", s)
			CheckC03(c, "expr", s)
			CheckC03(c, "statements", "SELECT "+s)
			CheckC03(c, "statements", "SELECT 1; "+s)
			CheckC03(c, "ddls", "CREATE TABLE t (a INT64 DEFAULT ("+s)
			CheckC03(c, "dmls", "DELETE FROM t WHERE a = "+s+"; "+s)
			CheckC03(c, "type", s)
			CheckC03(c, "query", "SELECT (1 + "+s)
		}
		idx++
	})
	for _, s := range gen.NumberForms() {
		if c.Mine(idx) {
			for _, e := range allEntriesPlus {
				CheckC03(c, e, s)
				CheckC03(c, e, "SELECT 1; "+s)
			}
		}
		idx++
	}
	// 3. adversarial nesting (bounds: depth <= 512, input <= 16 KiB)
	depths := []int{1, 2, 3, 7, 16, 33, 64, 128, 256, 512}
	if !c.Thorough() {
		depths = []int{1, 2, 3, 7, 16, 33, 64, 128, 256}
	}
	for _, fam := range gen.NestFamilies {
		for _, d := range depths {
			for _, closed := range []bool{true, false} {
				if c.Mine(idx) {
					s := fam.Make(d, closed)
					if len(s) <= 16<<10 {
						CheckC03(c, fam.Entry, s)
						CheckC03(c, "statement", s)
						CheckC03(c, "statements", s+";"+s)
						c.Count("nest_cases", 1)
						c.SetAdd("nest_families", fam.Name)
					}
				}
				idx++
			}
		}
	}
	// 3b. error ranges that span many lines and start on a late line (unclosed comment / triple-quoted literal / hint)
	for _, pre := range []int{0, 8, 98, 998, 9998} {
		for _, span := range []int{1, 3, 12, 101, 1001} {
			for _, opener := range []string{"/*", "SELECT '''abc", "SELECT \"\"\"", "@{a=\n", "SELECT (\n"} {
				if c.Mine(idx) {
					s := strings.Repeat("\n", pre) + opener + strings.Repeat("x\n", span)
					for _, e := range []string{"lex", "split", "statements", "expr", "ddl"} {
						CheckC03(c, e, s)
					}
					c.Count("late_multiline_error_inputs", 1)
				}
				idx++
			}
		}
	}
	// 3c. every keyword right after a syntax error and right before a lexically malformed token: error recovery and
	// look-ahead read tokens on their own, outside the entry point's ordinary error path
	{
		var words []string
		words = append(words, reflex.ReservedWords...)
		for w := range gen.PseudoKeywords {
			words = append(words, w)
		}
		sort.Strings(words)
		words = append(words, ";", ",", ")", "(", "|>", "@{", ".", "*")
		bad := []string{"'x", "\"x", "`x", "/* c", "'''x", "\x00", "0x", "1e", "1x", "$", "'\\u12'", "b'\\400'", "r'", "\xff"}
		pres := []string{"", "1 + ", "(", "SELECT ", "SELECT * ", "SELECT 1 FROM t WHERE ", "SELECT (1 +) ", "CREATE TABLE t (a ", "INSERT INTO t (a) VALUES (", "UPDATE t SET ", "x y ", "[", "CASE WHEN ", "f("}
		for _, w := range words {
			for _, b := range bad {
				for _, pre := range pres {
					if c.Mine(idx) {
						for _, e := range allEntriesPlus {
							CheckC03(c, e, pre+w+" "+b)
						}
						c.Count("keyword_then_malformed_token_inputs", 1)
					}
					idx++
				}
			}
		}
	}
	// 3d. error display matrix: building an error reads the source lines around it (line table, excerpt, cursor line),
	// so the same errors are provoked under every combination of token separator, last separator and end of input
	// (tabs, bare CR, CR LF, VT, FF; final CR / LF / tab / nothing), in the middle and at end of input
	{
		heads := []string{"SELECT 1 +", "SELECT", "CREATE TABLE", "CREATE TABLE t ( a", "ARRAY< INT64", "STRUCT<", "SELECT ( 1", "INSERT INTO t ( a ) VALUES (",
			"UPDATE t SET", "1 +", "SELECT 1 FROM", "SELECT 1 )", "SELECT 1 1", "x y", "SELECT * FROM t WHERE )", "DELETE", "SELECT 'a", "SELECT 1 ; SELECT", "f ( a ,", "CASE WHEN a"}
		seps := []string{" ", "\t", "\n", "\r", "\r\n", "\v", "\f"}
		tails := []string{"", "\r", "\n", "\r\n", "\t", "\t\r", " \r", "\r\r", "\n\r", "\r\t", "\n\t", " ", "\v", "\r\n\r", "\t\n"}
		var bads []string
		for _, cc := range c.Corpus() {
			if strings.Contains(cc.Name, "!bad_") && len(cc.Text) < 400 {
				bads = append(bads, strings.TrimRight(cc.Text, "\n"))
			}
		}
		for _, h := range heads {
			toks := strings.Split(h, " ")
			for _, s1 := range seps {
				for _, s2 := range seps {
					for _, tl := range tails {
						if c.Mine(idx) {
							in := strings.Join(toks[:len(toks)-1], s1)
							if len(toks) > 1 {
								in += s2
							}
							in += toks[len(toks)-1] + tl
							for _, e := range allEntriesPlus {
								CheckC03(c, e, in)
							}
							c.Count("error_display_matrix_inputs", 1)
						}
						idx++
					}
				}
			}
		}
		for _, b := range bads {
			for _, sp := range []string{" ", "\t", " \t"} {
				for _, nl := range []string{"\n", "\r\n", "\r", "\t\n"} {
					for _, tl := range tails {
						if c.Mine(idx) {
							in := strings.ReplaceAll(strings.ReplaceAll(b, "\n", "\x01"), " ", sp)
							in = strings.ReplaceAll(in, "\x01", nl) + tl
							for _, e := range allEntriesPlus {
								CheckC03(c, e, in)
							}
							c.Count("error_display_matrix_inputs", 1)
						}
						idx++
					}
				}
			}
		}
	}
	openThenBroken(c, &idx, func(entry, input string) { CheckC03(c, entry, input) })
	// 4. mutants, splices, random bytes
	n := 0
	errorWorkload(c, c.Pick(300_000, 6_000_000), func(entry, input string) {
		CheckC03(c, entry, input)
		c.Distinct(entry + "\x00" + input)
		n++
		if n%40000 == 1 {
			c.Sample(entry, input, "mutant/splice/random workload")
		}
	})
	// 4b. sentences of grammar G (systematic set under three renderings + random): valid input has to be total too
	if ExtraSentences != nil {
		ExtraSentences(c, c.Pick(20_000, 400_000), func(entry, input string) {
			CheckC03(c, entry, input)
			c.Count("g_sentences", 1)
		})
	}
	// 5. corpus itself under every entry point (also the wrong ones)
	for i, cc := range c.Corpus() {
		if c.Mine(i) {
			for _, e := range allEntriesPlus {
				CheckC03(c, e, cc.Text)
			}
		}
	}
	c.Sample("expr", "\"\\x", "literal matrix member (escape truncated by end of input)")
	c.Sample("statements", "SELECT 1; \x00", "token after ';' lexically malformed")
}
