// Package mon contains the monitors (one per property) and the shared run context.
package mon

import (
	"encoding/base64"
	"encoding/binary"
	"encoding/json"
	"fmt"
	"hash/fnv"
	"os"
	"sort"
	"strings"
	"syscall"
)

// Violation is one observed violation of a property.
type Violation struct {
	Property string `json:"property"`
	Sig      string `json:"sig"`   // context-free root-cause signature
	Entry    string `json:"entry"` // entry point / sub-monitor
	Input    string `json:"-"`     // the failing input (exact bytes)
	InputB64 string `json:"input_b64"`
	InputTxt string `json:"input_text"` // lossy, for readers
	Detail   string `json:"detail"`     // human readable diagnosis
	Count    int64  `json:"count"`      // number of cases with this signature (first one is kept)
}

// Encode fills the transport fields.
func (v *Violation) Encode() {
	v.InputB64 = base64.StdEncoding.EncodeToString([]byte(v.Input))
	v.InputTxt = fmt.Sprintf("%q", v.Input)
}

// Decode restores Input from the transport field.
func (v *Violation) Decode() {
	if b, err := base64.StdEncoding.DecodeString(v.InputB64); err == nil {
		v.Input = string(b)
	}
}

// Sample is a case written to the evidence file.
type Sample struct {
	Entry string `json:"entry"`
	Input string `json:"input"`
	Note  string `json:"note,omitempty"`
}

// Result is what a worker hands back to the driver.
type Result struct {
	Property     string              `json:"property"`
	Shard        int                 `json:"shard"`
	Evals        int64               `json:"evals"`
	Counters     map[string]int64    `json:"counters"`
	Max          map[string]float64  `json:"max"`
	Sets         map[string][]string `json:"sets"`
	Samples      []Sample            `json:"samples"`
	Violations   []Violation         `json:"violations"`
	Inconclusive []string            `json:"inconclusive"`
	Exhaustive   map[string]bool     `json:"exhaustive"`
	Notes        []string            `json:"notes"`
	DistinctFile string              `json:"distinct_file"`
}

// Ctx is the per-worker run context.
type Ctx struct {
	Prop    string
	Tier    string // quick | thorough
	Seed    uint64
	Shard   int
	NShards int
	RepoDir string
	Hooks   bool // built with the verif tag
	Race    bool

	Res      Result
	distinct map[uint64]struct{}
	sets     map[string]map[string]struct{}
	violIdx  map[string]int
	// known inputs/sigs are matched in the driver, not here.

	journal []byte // mmap'd
	caseNo  uint64
	maxViol int
	Single  bool // replay / witness mode: run exactly one case
	// SigTag, when set, is appended to every signature ("sig@tag"): used by sub-workloads whose known findings
	// must not mask the same signature in the main workloads.
	SigTag string
	// tagEntry, when set, is put in front of the entry name of journalled cases and violations (replay decodes it).
	tagEntry string
}

func NewCtx(prop, tier string, seed uint64, shard, nshards int, repo string) *Ctx {
	c := &Ctx{Prop: prop, Tier: tier, Seed: seed, Shard: shard, NShards: nshards, RepoDir: repo}
	c.Res.Property = prop
	c.Res.Shard = shard
	c.Res.Counters = map[string]int64{}
	c.Res.Max = map[string]float64{}
	c.Res.Exhaustive = map[string]bool{}
	c.distinct = map[uint64]struct{}{}
	c.sets = map[string]map[string]struct{}{}
	c.violIdx = map[string]int{}
	c.maxViol = 200
	c.Hooks = hooksEnabled
	return c
}

func (c *Ctx) Thorough() bool { return c.Tier == "thorough" }

// Pick returns q for quick and t for thorough.
func (c *Ctx) Pick(q, t int) int {
	if c.Thorough() {
		return t
	}
	return q
}

// Mine reports whether global case index i belongs to this shard.
func (c *Ctx) Mine(i int) bool {
	if c.NShards <= 1 {
		return true
	}
	return i%c.NShards == c.Shard
}

const journalSize = 1 << 16

// OpenJournal maps the journal file; the current case is stored there before
// each call into memefish so that the driver can recover the culprit after a
// fatal process death.
func (c *Ctx) OpenJournal(path string) error {
	f, err := os.OpenFile(path, os.O_RDWR|os.O_CREATE|os.O_TRUNC, 0o644)
	if err != nil {
		return err
	}
	defer f.Close()
	if err := f.Truncate(journalSize); err != nil {
		return err
	}
	m, err := syscall.Mmap(int(f.Fd()), 0, journalSize, syscall.PROT_READ|syscall.PROT_WRITE, syscall.MAP_SHARED)
	if err != nil {
		return err
	}
	c.journal = m
	return nil
}

// Journal records the case about to be executed.
func (c *Ctx) Journal(entry, input string) {
	entry = c.tagEntry + entry
	c.caseNo++
	if c.journal == nil {
		return
	}
	j := c.journal
	binary.LittleEndian.PutUint64(j[0:], c.caseNo)
	n := len(entry)
	if n > 255 {
		n = 255
	}
	j[8] = byte(n)
	copy(j[9:9+n], entry[:n])
	off := 9 + 255
	m := len(input)
	if m > journalSize-off-8 {
		m = journalSize - off - 8
	}
	binary.LittleEndian.PutUint32(j[off:], uint32(m))
	copy(j[off+4:], input[:m])
}

// ReadJournal decodes a journal file.
func ReadJournal(path string) (caseNo uint64, entry, input string, err error) {
	b, err := os.ReadFile(path)
	if err != nil {
		return 0, "", "", err
	}
	if len(b) < 9+255+4 {
		return 0, "", "", fmt.Errorf("short journal")
	}
	caseNo = binary.LittleEndian.Uint64(b[0:])
	n := int(b[8])
	entry = string(b[9 : 9+n])
	off := 9 + 255
	m := int(binary.LittleEndian.Uint32(b[off:]))
	if off+4+m > len(b) {
		m = len(b) - off - 4
	}
	input = string(b[off+4 : off+4+m])
	return
}

func (c *Ctx) Count(key string, n int64) { c.Res.Counters[key] += n }

func (c *Ctx) MaxF(key string, v float64) {
	if old, ok := c.Res.Max[key]; !ok || v > old {
		c.Res.Max[key] = v
	}
}

func (c *Ctx) SetAdd(set, elem string) {
	m := c.sets[set]
	if m == nil {
		m = map[string]struct{}{}
		c.sets[set] = m
	}
	m[elem] = struct{}{}
}

func (c *Ctx) SetHas(set, elem string) bool {
	_, ok := c.sets[set][elem]
	return ok
}

// Eval counts one evaluated case.
func (c *Ctx) Eval() { c.Res.Evals++ }

// Distinct records a non-trivial case by its class key.
func (c *Ctx) Distinct(key string) {
	h := fnv.New64a()
	h.Write([]byte(key))
	c.distinct[h.Sum64()] = struct{}{}
}

func (c *Ctx) DistinctHash(h uint64) { c.distinct[h] = struct{}{} }

// Sample keeps up to 12 samples per worker.
func (c *Ctx) Sample(entry, input, note string) {
	if len(c.Res.Samples) < 12 {
		if len(input) > 400 {
			input = input[:400] + "…"
		}
		c.Res.Samples = append(c.Res.Samples, Sample{entry, input, note})
	}
}

// Violate records a violation (deduplicated by signature; first witness kept,
// but a shorter witness replaces a longer one).
func (c *Ctx) Violate(sig, entry, input, detail string) {
	if c.SigTag != "" {
		sig += "@" + c.SigTag
	}
	entry = c.tagEntry + entry
	key := sig
	if i, ok := c.violIdx[key]; ok {
		v := &c.Res.Violations[i]
		v.Count++
		if len(input) < len(v.Input) {
			v.Input, v.Entry, v.Detail = input, entry, detail
		}
		return
	}
	if len(c.Res.Violations) >= c.maxViol {
		c.Count("violations_dropped", 1)
		return
	}
	c.violIdx[key] = len(c.Res.Violations)
	if len(detail) > 2000 {
		detail = detail[:2000] + "…"
	}
	c.Res.Violations = append(c.Res.Violations, Violation{Property: c.Prop, Sig: sig, Entry: entry, Input: input, Detail: detail, Count: 1})
}

// ViolateInput records a violation identified by its exact input in addition to the signature
// (used for the finite K4-style sub-workloads): the dedup key includes the input.
func (c *Ctx) ViolateEach(sig, entry, input, detail string) {
	key := sig + "\x00" + entry + "\x00" + input
	if _, ok := c.violIdx[key]; ok {
		return
	}
	if len(c.Res.Violations) >= c.maxViol {
		c.Count("violations_dropped", 1)
		return
	}
	c.violIdx[key] = len(c.Res.Violations)
	c.Res.Violations = append(c.Res.Violations, Violation{Property: c.Prop, Sig: sig, Entry: entry, Input: input, Detail: detail, Count: 1})
}

func (c *Ctx) Inconclusive(reason string) {
	c.Res.Inconclusive = append(c.Res.Inconclusive, reason)
}

func (c *Ctx) Note(s string) { c.Res.Notes = append(c.Res.Notes, s) }

// Finish serialises the result.
func (c *Ctx) Finish(outPath string) error {
	c.Res.Sets = map[string][]string{}
	for k, m := range c.sets {
		var l []string
		for e := range m {
			l = append(l, e)
		}
		sort.Strings(l)
		c.Res.Sets[k] = l
	}
	for i := range c.Res.Violations {
		c.Res.Violations[i].Encode()
	}
	if outPath == "" {
		return nil
	}
	// distinct hashes in a side file
	df := strings.TrimSuffix(outPath, ".json") + ".distinct"
	buf := make([]byte, 8*len(c.distinct))
	i := 0
	for h := range c.distinct {
		binary.LittleEndian.PutUint64(buf[i*8:], h)
		i++
	}
	if err := os.WriteFile(df, buf, 0o644); err != nil {
		return err
	}
	c.Res.DistinctFile = df
	b, err := json.Marshal(&c.Res)
	if err != nil {
		return err
	}
	return os.WriteFile(outPath, b, 0o644)
}

func (c *Ctx) DistinctCount() int { return len(c.distinct) }
