package mon

import (
	"fmt"
	"strconv"
	"strings"

	"github.com/cloudspannerecosystem/memefish/ast"

	"verif/internal/astx"
	"verif/internal/gen"
	"verif/internal/reflex"
)

// ---------------------------------------------------------------------------
// C07: operator precedence and associativity (reference model = the generating tree)

// documented precedence levels (higher binds tighter)
const (
	lvOr      = 1
	lvAnd     = 2
	lvNot     = 3
	lvCmp     = 4
	lvBitOr   = 5
	lvBitXor  = 6
	lvBitAnd  = 7
	lvShift   = 8
	lvAddSub  = 9
	lvMulDiv  = 10
	lvUnary   = 11
	lvPostfix = 12
	lvAtom    = 13
)

type opKind int

const (
	kAtom  opKind = iota
	kBin          // left-associative binary (Or, And, bit ops, shift, add, mul) and comparison binary (level lvCmp)
	kUnary        // + - ~
	kNot
	kIn       // [NOT] IN (list)
	kInUnnest // [NOT] IN UNNEST(x)
	kBetween  // [NOT] BETWEEN
	kIsNull   // IS [NOT] NULL
	kIsBool   // IS [NOT] TRUE/FALSE
	kSelector // .f
	kIndex    // [i]
	kIndexKw  // [OFFSET(i)]
)

type opDef struct {
	kind  opKind
	sym   string // operator spelling ("+", "AND", "NOT LIKE", "IS NOT TRUE" ...)
	level int
	astOp string // memefish op string
	not   bool
	val   bool
}

var c07Ops []opDef

func init() {
	bin := func(sym string, lv int) { c07Ops = append(c07Ops, opDef{kind: kBin, sym: sym, level: lv, astOp: sym}) }
	bin("OR", lvOr)
	bin("AND", lvAnd)
	for _, s := range []string{"=", "!=", "<", "<=", ">", ">=", "LIKE", "NOT LIKE"} {
		bin(s, lvCmp)
	}
	c07Ops = append(c07Ops, opDef{kind: kBin, sym: "<>", level: lvCmp, astOp: "!="})
	bin("|", lvBitOr)
	bin("^", lvBitXor)
	bin("&", lvBitAnd)
	bin("<<", lvShift)
	bin(">>", lvShift)
	bin("+", lvAddSub)
	bin("-", lvAddSub)
	bin("*", lvMulDiv)
	bin("/", lvMulDiv)
	bin("||", lvMulDiv)
	for _, s := range []string{"+", "-", "~"} {
		c07Ops = append(c07Ops, opDef{kind: kUnary, sym: s, level: lvUnary, astOp: s})
	}
	c07Ops = append(c07Ops, opDef{kind: kNot, sym: "NOT", level: lvNot, astOp: "NOT"})
	for _, n := range []bool{false, true} {
		c07Ops = append(c07Ops, opDef{kind: kIn, sym: "IN", level: lvCmp, not: n})
		c07Ops = append(c07Ops, opDef{kind: kInUnnest, sym: "IN UNNEST", level: lvCmp, not: n})
		c07Ops = append(c07Ops, opDef{kind: kBetween, sym: "BETWEEN", level: lvCmp, not: n})
		c07Ops = append(c07Ops, opDef{kind: kIsNull, sym: "IS NULL", level: lvCmp, not: n})
		c07Ops = append(c07Ops, opDef{kind: kIsBool, sym: "IS TRUE", level: lvCmp, not: n, val: true})
		c07Ops = append(c07Ops, opDef{kind: kIsBool, sym: "IS FALSE", level: lvCmp, not: n, val: false})
	}
	c07Ops = append(c07Ops, opDef{kind: kSelector, sym: ".f", level: lvPostfix})
	c07Ops = append(c07Ops, opDef{kind: kIndex, sym: "[i]", level: lvPostfix})
	c07Ops = append(c07Ops, opDef{kind: kIndexKw, sym: "[OFFSET(i)]", level: lvPostfix})
}

type tnode struct {
	op   *opDef // nil for atoms
	kids []*tnode
	atom int // atom kind, assigned after construction
	leaf int // leaf index
}

func (t *tnode) level() int {
	if t.op == nil {
		return lvAtom
	}
	return t.op.level
}

// enumTrees calls f for every tree with exactly k operator occurrences.
func enumTrees(k int, f func(*tnode)) {
	if k == 0 {
		f(&tnode{})
		return
	}
	for i := range c07Ops {
		op := &c07Ops[i]
		switch op.kind {
		case kBin:
			for a := 0; a <= k-1; a++ {
				enumTrees(a, func(l *tnode) {
					enumTrees(k-1-a, func(r *tnode) {
						f(&tnode{op: op, kids: []*tnode{l, r}})
					})
				})
			}
		case kBetween:
			for a := 0; a <= k-1; a++ {
				for b := 0; a+b <= k-1; b++ {
					enumTrees(a, func(x *tnode) {
						enumTrees(b, func(lo *tnode) {
							enumTrees(k-1-a-b, func(hi *tnode) {
								f(&tnode{op: op, kids: []*tnode{x, lo, hi}})
							})
						})
					})
				}
			}
		default:
			enumTrees(k-1, func(x *tnode) {
				f(&tnode{op: op, kids: []*tnode{x}})
			})
		}
	}
}

// copyAssign deep-copies t and assigns leaf indices and atom kinds (variant selects the atom pattern).
func copyAssign(t *tnode, variant int) *tnode {
	leaf := 0
	var rec func(n *tnode, postfixBase bool) *tnode
	rec = func(n *tnode, postfixBase bool) *tnode {
		if n.op == nil {
			c := &tnode{leaf: leaf}
			k := (variant + leaf*3) % 14
			if postfixBase && (k == 2 || k == 3 || k == 5 || k == 6 || k >= 8) {
				k = 0 // string / number / keyword-introduced forms are not used as base of .f / [i]
			}
			c.atom = k
			leaf++
			return c
		}
		c := &tnode{op: n.op}
		for i, kid := range n.kids {
			pb := i == 0 && (n.op.kind == kSelector || n.op.kind == kIndex || n.op.kind == kIndexKw)
			c.kids = append(c.kids, rec(kid, pb))
		}
		return c
	}
	return rec(t, false)
}

var atomNames = []string{"a", "b", "c", "d", "e", "g", "h", "k", "m", "n", "q", "r", "s", "t", "u", "v", "w", "x", "y", "z"}

func atomToks(n *tnode) ([]string, string) {
	name := atomNames[n.leaf%len(atomNames)]
	switch n.atom {
	case 1:
		return []string{"@" + name}, "A(@" + name + ")"
	case 2:
		return []string{"'" + name + "'"}, "A('" + name + "')"
	case 3:
		v := fmt.Sprint(n.leaf + 1)
		return []string{v}, "A(" + v + ")"
	case 4:
		return []string{"f", "(", name, ")"}, "C(f," + name + ")"
	case 5: // integers at and beyond the INT64 boundary
		v := []string{"9223372036854775807", "9223372036854775808", "18446744073709551616"}[n.leaf%3]
		return []string{v}, "A(" + v + ")"
	case 6:
		v := []string{"0x7FFFFFFFFFFFFFFF", "0x8000000000000000", "0xFFFFFFFFFFFFFFFFF"}[n.leaf%3]
		return []string{v}, "A(" + v + ")"
	// primaries that bring their own brackets or keywords: a parenthesis written around them is still a ParenExpr
	case 7:
		return []string{"(", "SELECT", name, ")"}, "X(ScalarSubQuery," + name + ")"
	case 8:
		return []string{"ARRAY", "(", "SELECT", name, ")"}, "X(ArraySubQuery," + name + ")"
	case 9:
		return []string{"EXISTS", "(", "SELECT", name, ")"}, "X(ExistsSubQuery," + name + ")"
	case 10:
		return []string{"CASE", "WHEN", name, "THEN", "1", "END"}, "X(CaseExpr," + name + ")"
	case 11:
		return []string{"CAST", "(", name, "AS", "INT64", ")"}, "X(CastExpr," + name + ")"
	case 12:
		return []string{"[", name, "]"}, "X(ArrayLiteral," + name + ")"
	case 13:
		return []string{"(", name, ",", "1", ")"}, "X(TupleStructLiteral," + name + ")"
	}
	return []string{name}, "A(" + name + ")"
}

// needParen decides, by the documented table, whether operand kid (position i) of parent must be parenthesised.
func needParen(parent *tnode, i int) bool {
	kid := parent.kids[i]
	kl := kid.level()
	op := parent.op
	switch op.kind {
	case kBin:
		if op.level == lvCmp {
			return kl <= lvCmp
		}
		if i == 0 {
			return kl < op.level
		}
		return kl <= op.level
	case kUnary:
		return kl < lvUnary
	case kNot:
		return kl < lvNot
	case kIn, kInUnnest, kIsNull, kIsBool:
		return kl <= lvCmp
	case kBetween:
		return kl <= lvCmp
	case kSelector, kIndex, kIndexKw:
		return kl < lvPostfix
	}
	return false
}

// render produces the token list and the expected shape. full: every operand parenthesised.
func renderTree(t *tnode, full bool) (toks []string, shape string) {
	if t.op == nil {
		return atomToks(t)
	}
	operand := func(i int) ([]string, string) {
		ts, sh := renderTree(t.kids[i], full)
		if full || needParen(t, i) {
			return append(append([]string{"("}, ts...), ")"), "P(" + sh + ")"
		}
		return ts, sh
	}
	op := t.op
	notS := ""
	if op.not {
		notS = "NOT "
	}
	switch op.kind {
	case kBin:
		l, ls := operand(0)
		r, rs := operand(1)
		toks = append(append(append(toks, l...), strings.Fields(op.sym)...), r...)
		return toks, "B(" + op.astOp + "," + ls + "," + rs + ")"
	case kUnary:
		x, xs := operand(0)
		// documented folding: a sign directly in front of an unsigned numeric literal is part of the literal
		if (op.sym == "+" || op.sym == "-") && t.kids[0].op == nil && (t.kids[0].atom == 3 || t.kids[0].atom == 5 || t.kids[0].atom == 6) && !full {
			return append([]string{op.sym}, x...), "A(" + op.sym + strings.TrimSuffix(strings.TrimPrefix(xs, "A("), ")") + ")"
		}
		return append([]string{op.sym}, x...), "U(" + op.sym + "," + xs + ")"
	case kNot:
		x, xs := operand(0)
		return append([]string{"NOT"}, x...), "U(NOT," + xs + ")"
	case kIn:
		x, xs := operand(0)
		toks = append(toks, x...)
		if op.not {
			toks = append(toks, "NOT")
		}
		toks = append(toks, "IN", "(", "p", ",", "q2", ")")
		return toks, "IN(" + notS + xs + ",V(A(p),A(q2)))"
	case kInUnnest:
		x, xs := operand(0)
		toks = append(toks, x...)
		if op.not {
			toks = append(toks, "NOT")
		}
		toks = append(toks, "IN", "UNNEST", "(", "arr", ")")
		return toks, "IN(" + notS + xs + ",UN(A(arr)))"
	case kBetween:
		x, xs := operand(0)
		lo, los := operand(1)
		hi, his := operand(2)
		toks = append(toks, x...)
		if op.not {
			toks = append(toks, "NOT")
		}
		toks = append(toks, "BETWEEN")
		toks = append(toks, lo...)
		toks = append(toks, "AND")
		toks = append(toks, hi...)
		return toks, "BT(" + notS + xs + "," + los + "," + his + ")"
	case kIsNull:
		x, xs := operand(0)
		toks = append(toks, x...)
		toks = append(toks, "IS")
		if op.not {
			toks = append(toks, "NOT")
		}
		toks = append(toks, "NULL")
		return toks, "ISN(" + notS + xs + ")"
	case kIsBool:
		x, xs := operand(0)
		toks = append(toks, x...)
		toks = append(toks, "IS")
		if op.not {
			toks = append(toks, "NOT")
		}
		v := "FALSE"
		if op.val {
			v = "TRUE"
		}
		toks = append(toks, v)
		return toks, "ISB(" + notS + v + "," + xs + ")"
	case kSelector:
		x, xs := operand(0)
		return append(x, ".", "fld"), "S(" + xs + ",fld)"
	case kIndex:
		x, xs := operand(0)
		return append(x, "[", "i1", "]"), "I(" + xs + ",A(i1))"
	case kIndexKw:
		x, xs := operand(0)
		return append(x, "[", "OFFSET", "(", "i1", ")", "]"), "IK(" + xs + ",OFFSET,A(i1))"
	}
	return nil, "?"
}

// shapeOf converts a memefish expression into the shape notation.
func shapeOf(e ast.Node) string {
	switch n := e.(type) {
	case *ast.BinaryExpr:
		return "B(" + string(n.Op) + "," + shapeOf(n.Left) + "," + shapeOf(n.Right) + ")"
	case *ast.UnaryExpr:
		return "U(" + string(n.Op) + "," + shapeOf(n.Expr) + ")"
	case *ast.ParenExpr:
		return "P(" + shapeOf(n.Expr) + ")"
	case *ast.InExpr:
		not := ""
		if n.Not {
			not = "NOT "
		}
		switch r := n.Right.(type) {
		case *ast.ValuesInCondition:
			var ss []string
			for _, x := range r.Exprs {
				ss = append(ss, shapeOf(x))
			}
			return "IN(" + not + shapeOf(n.Left) + ",V(" + strings.Join(ss, ",") + "))"
		case *ast.UnnestInCondition:
			return "IN(" + not + shapeOf(n.Left) + ",UN(" + shapeOf(r.Expr) + "))"
		}
		return "IN(?)"
	case *ast.BetweenExpr:
		not := ""
		if n.Not {
			not = "NOT "
		}
		return "BT(" + not + shapeOf(n.Left) + "," + shapeOf(n.RightStart) + "," + shapeOf(n.RightEnd) + ")"
	case *ast.IsNullExpr:
		not := ""
		if n.Not {
			not = "NOT "
		}
		return "ISN(" + not + shapeOf(n.Left) + ")"
	case *ast.IsBoolExpr:
		not := ""
		if n.Not {
			not = "NOT "
		}
		v := "FALSE"
		if n.Right {
			v = "TRUE"
		}
		return "ISB(" + not + v + "," + shapeOf(n.Left) + ")"
	case *ast.SelectorExpr:
		return "S(" + shapeOf(n.Expr) + "," + n.Ident.Name + ")"
	case *ast.IndexExpr:
		switch ix := n.Index.(type) {
		case *ast.ExprArg:
			return "I(" + shapeOf(n.Expr) + "," + shapeOf(ix.Expr) + ")"
		case *ast.SubscriptSpecifierKeyword:
			return "IK(" + shapeOf(n.Expr) + "," + string(ix.Keyword) + "," + shapeOf(ix.Expr) + ")"
		}
		return "I(?)"
	case *ast.Ident:
		return "A(" + n.Name + ")"
	case *ast.Path:
		// documented folding: ident.ident is a Path; written here as the selector chain it abbreviates
		s := "A(" + n.Idents[0].Name + ")"
		for _, id := range n.Idents[1:] {
			s = "S(" + s + "," + id.Name + ")"
		}
		return s
	case *ast.Param:
		return "A(@" + n.Name + ")"
	case *ast.StringLiteral:
		return "A('" + n.Value + "')"
	case *ast.IntLiteral:
		return "A(" + n.Value + ")"
	case *ast.CallExpr:
		arg := "?"
		if len(n.Args) == 1 {
			if ea, ok := n.Args[0].(*ast.ExprArg); ok {
				if id, ok := ea.Expr.(*ast.Ident); ok {
					arg = id.Name
				}
			}
		}
		name := "?"
		if len(n.Func.Idents) == 1 {
			name = n.Func.Idents[0].Name
		}
		return "C(" + name + "," + arg + ")"
	}
	switch e.(type) {
	case *ast.ScalarSubQuery, *ast.ArraySubQuery, *ast.ExistsSubQuery, *ast.CaseExpr, *ast.CastExpr, *ast.ArrayLiteral, *ast.TupleStructLiteral:
		name := "?"
		for _, in := range astx.Nodes(e) {
			if id, ok := in.Node.(*ast.Ident); ok {
				name = id.Name
				break
			}
		}
		return "X(" + astx.TypeName(e) + "," + name + ")"
	}
	return fmt.Sprintf("?%T", e)
}

// firstDiff gives a context-free signature of a shape mismatch: the operators at the first differing position.
func shapeDiffSig(want, got string) string {
	i := 0
	for i < len(want) && i < len(got) && want[i] == got[i] {
		i++
	}
	ctx := func(s string) string {
		// the enclosing operator name: scan back to the last '(' and take the word before it, plus the op symbol after
		j := i
		if j > len(s) {
			j = len(s)
		}
		k := strings.LastIndex(s[:j], "(")
		if k < 0 {
			return "?"
		}
		st := k
		for st > 0 && (s[st-1] >= 'A' && s[st-1] <= 'Z') {
			st--
		}
		end := k + 1
		for end < len(s) && s[end] != ',' && s[end] != '(' && s[end] != ')' {
			end++
		}
		return s[st:end]
	}
	return ctx(want) + "/" + ctx(got)
}

// CheckC07 checks one rendered tree (text, expected shape).
func CheckC07(c *Ctx, text, want string) {
	c.Journal("expr", text)
	in := text + "\x00" + want // the stored input carries the expectation
	p := Parse("expr", text)
	c.Eval()
	if p.Panic != nil {
		c.Count("panics_left_to_C03", 1)
		return
	}
	if p.Err != nil {
		c.Violate("c07:rejected:"+errClassOf(p.Err), "expr", in, fmt.Sprintf("an expression that is valid by the documented operator table is rejected: %v (expected grouping %s)", p.Err, want))
		return
	}
	got := shapeOf(p.Root())
	if got != want {
		c.Violate("c07:grouping:"+shapeDiffSig(want, got), "expr", in, fmt.Sprintf("expected grouping %s, parsed as %s", want, got))
		return
	}
	// SQL() neither adds nor loses a parenthesis (nor anything else)
	s, pv := SQLOf(p.Root())
	if pv != nil {
		c.Count("sql_panics_left_to_C04", 1)
		return
	}
	a, st1, _ := gen.Normalize(text)
	b, st2, _ := gen.Normalize(s)
	if st1 == reflex.Accept && st2 == reflex.Accept {
		if sig, desc := gen.DiffToks(a, b); sig != "" {
			c.Violate("c07:sql:"+sig, "expr", in, desc+fmt.Sprintf("; SQL() = %q", s))
		}
	} else if st2 == reflex.Reject {
		c.Violate("c07:sql-does-not-lex", "expr", in, fmt.Sprintf("SQL() = %q", s))
	}
	c.Count("trees_checked", 1)
}

// CheckC07Negative: an unparenthesised chain of two comparison-family operators must be rejected.
func CheckC07Negative(c *Ctx, text string) {
	c.Journal("expr", text)
	p := Parse("expr", text)
	c.Eval()
	if p.Panic != nil {
		return
	}
	c.Count("negative_cases", 1)
	if p.Err == nil {
		c.Violate("c07:comparison-chain-accepted", "expr", text, fmt.Sprintf("comparison operators are not associative, but the chain is accepted as %s", shapeOf(p.Root())))
	}
}

// ReplayC07 re-derives the expectation from the text: the text is one of the two renderings of some tree; for a
// replay the stored input is "text\x00shape".
func ReplayC07(c *Ctx, entry, input string) {
	if entry == "chain" {
		if i := strings.LastIndexByte(input, ' '); i > 0 {
			if n, err := strconv.Atoi(input[i+1:]); err == nil && n > 0 && n <= 200000 {
				CheckC07Chain(c, input[:i], n)
			}
		}
		return
	}
	parts := strings.SplitN(input, "\x00", 2)
	if len(parts) == 2 {
		CheckC07(c, parts[0], parts[1])
	} else {
		CheckC07Negative(c, input)
	}
}

func randTree(r interface{ IntN(int) int }, k int) *tnode {
	if k == 0 {
		return &tnode{}
	}
	op := &c07Ops[r.IntN(len(c07Ops))]
	switch op.kind {
	case kBin:
		a := r.IntN(k)
		return &tnode{op: op, kids: []*tnode{randTree(r, a), randTree(r, k-1-a)}}
	case kBetween:
		a := r.IntN(k)
		b := r.IntN(k - a)
		return &tnode{op: op, kids: []*tnode{randTree(r, a), randTree(r, b), randTree(r, k-1-a-b)}}
	}
	return &tnode{op: op, kids: []*tnode{randTree(r, k-1)}}
}

func RunC07(c *Ctx) {
	ns := max(c.NShards, 1)
	K := c.Pick(3, 4)
	idx := 0
	check := func(t *tnode, variant int) {
		tt := copyAssign(t, variant)
		for _, full := range []bool{false, true} {
			toks, shape := renderTree(tt, full)
			text := strings.Join(toks, " ")
			// store text and expectation together so that a replay needs nothing else
			CheckC07pair(c, text, shape)
		}
	}
	for k := 0; k <= K; k++ {
		enumTrees(k, func(t *tnode) {
			if idx%ns == c.Shard {
				check(t, idx)
				c.Count("distinct_enum", 1)
				if idx%40000 == 0 {
					toks, shape := renderTree(copyAssign(t, idx), false)
					c.Sample("expr", strings.Join(toks, " "), "expected "+shape)
				}
			}
			idx++
		})
	}
	c.Res.Exhaustive[fmt.Sprintf("all_operator_trees_with<=%d_operator_occurrences_x_{minimal,full}_parenthesisation", K)] = true
	// random larger trees
	r := gen.NewRand(c.Seed, 700+uint64(c.Shard))
	for i := 0; i < c.Pick(120_000, 1_500_000)/ns; i++ {
		t := randTree(r, K+1+r.IntN(12-K))
		check(t, r.IntN(1000))
		if i%5000 == 0 {
			toks, shape := renderTree(copyAssign(t, 0), false)
			c.Distinct(shape)
			c.Sample("expr", strings.Join(toks, " "), "expected "+shape)
		}
		toks, _ := renderTree(t, false)
		c.Distinct(strings.Join(toks, " "))
	}
	c07LongChains(c)
	// negative clause: chains of two comparison-family operators
	if c.Shard == 0 {
		tails := []string{"= c", "!= c", "<> c", "< c", "<= c", "> c", ">= c", "LIKE c", "NOT LIKE c", "IN (c)", "NOT IN (c)", "IN UNNEST(c)", "BETWEEN c AND d", "NOT BETWEEN c AND d", "IS NULL", "IS NOT NULL", "IS TRUE", "IS NOT FALSE"}
		for _, t1 := range tails {
			for _, t2 := range tails {
				t1b := strings.ReplaceAll(strings.ReplaceAll(t1, "c", "b"), "d", "b2")
				CheckC07Negative(c, "a "+t1b+" "+t2)
			}
		}
	}
}

// CheckC07pair is CheckC07 (kept for readability at the call site).
func CheckC07pair(c *Ctx, text, shape string) { CheckC07(c, text, shape) }
