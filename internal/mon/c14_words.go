package mon

import (
	"fmt"

	memefish "github.com/cloudspannerecosystem/memefish"
	"github.com/cloudspannerecosystem/memefish/token"

	"verif/internal/reflex"
)

// c14Words: every identifier-shaped word of up to L characters over [a-z0-9_] (first character a letter or '_'),
// in lower case and with its letters upper-cased, must lex as one token: the reserved keyword it spells, or an
// identifier. A lean loop (no reference-lexer run per word: the expectation is the documented keyword list).
func c14Words(c *Ctx) {
	reserved := map[string]bool{}
	for _, w := range reflex.ReservedWords {
		reserved[w] = true
	}
	const alpha = "abcdefghijklmnopqrstuvwxyz_0123456789" // the first 27 may start a word
	L := 5
	letters6 := c.Thorough()
	ns := max(c.NShards, 1)
	var n, kw int64
	buf := make([]byte, 0, 8)
	up := make([]byte, 0, 8)
	checkWord := func(w string) {
		n++
		var kind token.TokenKind
		var end token.Pos
		var eof bool
		var lerr error
		pv, _ := callSUT(func() {
			l := &memefish.Lexer{File: &token.File{FilePath: FilePath, Buffer: w}}
			if lerr = l.NextToken(); lerr != nil {
				return
			}
			kind, end = l.Token.Kind, l.Token.End
			if lerr = l.NextToken(); lerr != nil {
				return
			}
			eof = l.Token.Kind == token.TokenEOF
		})
		up = up[:0]
		for i := 0; i < len(w); i++ {
			ch := w[i]
			if ch >= 'a' && ch <= 'z' {
				ch -= 32
			}
			up = append(up, ch)
		}
		want := token.TokenKind("<ident>")
		if reserved[string(up)] {
			want = token.TokenKind(string(up))
			kw++
		}
		if pv != nil || lerr != nil || kind != want || int(end) != len(w) || !eof {
			c.Journal("lex", w)
			c.Violate("c14:word-kind", "lex", w, fmt.Sprintf("the word %q lexes as kind %q ending at %d (panic=%v err=%v, then <eof>=%v), want one %s token", w, kind, end, pv, lerr, eof, want))
		}
	}
	var rec func(depth int)
	total := 0
	rec = func(depth int) {
		if depth > 0 {
			// shard on the whole word's ordinal
			if total%ns == c.Shard {
				w := string(buf)
				checkWord(w)
				if depth <= 4 {
					checkWord(string(up)) // up holds the upper-cased spelling of w after checkWord(w)
				}
			}
			total++
		}
		if depth == L {
			return
		}
		lim := len(alpha)
		if depth == 0 {
			lim = 27
		}
		for i := 0; i < lim; i++ {
			buf = append(buf, alpha[i])
			rec(depth + 1)
			buf = buf[:len(buf)-1]
		}
	}
	c.Journal("lex", "<identifier-shaped words>")
	rec(0)
	c.Res.Exhaustive[fmt.Sprintf("identifier_shaped_words_len<=%d_over_[a-z0-9_]", L)] = true
	if letters6 {
		// six and seven letters: letters only; seven-letter words are sampled by stride
		w := make([]byte, 6)
		cnt := 0
		for i := 0; i < 26*26*26; i++ {
			w[0], w[1], w[2] = byte('a'+i/676), byte('a'+i/26%26), byte('a'+i%26)
			if i%ns != c.Shard {
				continue
			}
			for j := 0; j < 26*26*26; j++ {
				w[3], w[4], w[5] = byte('a'+j/676), byte('a'+j/26%26), byte('a'+j%26)
				checkWord(string(w))
				cnt++
			}
		}
		c.Res.Exhaustive["identifier_shaped_words_of_6_letters"] = true
	}
	c.Count("identifier_shaped_words", n)
	c.Count("identifier_shaped_words_that_are_keywords", kw)
	c.Res.Evals += n
}
