package mon

import (
	"strings"

	"verif/internal/gen"
	"verif/internal/reflex"
)

// c11LongLists: one parser instance serves thousands of statements, so anything it accumulates from statement to
// statement (counters, depth, cached tokens) shows only in long lists.
func c11LongLists(c *Ctx, idx int) {
	reps := c.Pick(4096, 20000)
	for _, sh := range c11Shapes {
		if c.Mine(idx) {
			CheckC11(c, sh[0], strings.Repeat(sh[1]+";\n", reps))
			c.Count("long_lists", 1)
			c.MaxF("max_statements_in_one_list", float64(reps))
		}
		idx++
	}
	if c.Mine(idx) {
		var sb strings.Builder
		for i := 0; i < reps; i++ {
			sh := c11Shapes[i%len(c11Shapes)]
			if sh[0] == "statements" {
				sb.WriteString(sh[1] + "\n;\n")
			}
		}
		CheckC11(c, "statements", sb.String())
		c.Count("long_lists", 1)
	}
	greps := 2500
	gSentences(c, 0, func(gs gSentence) {
		if !c.Thorough() && (gs.Opts != renderPolicies[0] || len(gs.Text) > 160) {
			return
		}
		kind, txt := "statements", gs.Text
		switch gs.S.Entry {
		case "expr":
			txt = "SELECT " + txt
		case "type":
			txt = "SELECT CAST(NULL AS " + txt + ")"
		case "ddl":
			if len(txt)%2 == 0 {
				kind = "ddls"
			}
		case "dml":
			if len(txt)%2 == 0 {
				kind = "dmls"
			}
		}
		CheckC11(c, kind, strings.Repeat(txt+"\n;\n", greps))
		c.Count("long_lists", 1)
		c.Count("long_lists_of_G_sentences", 1)
	})
}

// c11SemicolonEverywhere: a ';' in front of every token of every corpus file and systematic sentence. Wherever the
// ';' lands (inside brackets, braces, hints, type arguments, CASE ... END), it is a top-level separator for the
// splitter, so the list parser has to treat it as one too.
func c11SemicolonEverywhere(c *Ctx, idx int) {
	one := func(kind, text string) {
		lx := reflex.Lex(text)
		if lx.Status != reflex.Accept || len(text) > 3000 {
			return
		}
		for _, t := range lx.Toks {
			CheckC11(c, kind, text[:t.Pos]+";"+text[t.Pos:])
			c.Count("semicolon_insertions", 1)
		}
	}
	for _, cc := range c.Corpus() {
		if c.Mine(idx) && !cc.Bad {
			switch cc.Dir {
			case "ddl":
				one("ddls", cc.Text)
			case "dml":
				one("dmls", cc.Text)
			case "expr":
				one("statements", "SELECT "+cc.Text)
			default:
				one("statements", cc.Text)
			}
		}
		idx++
	}
	set, _, _ := gen.SystematicSet()
	rr := gen.NewRand(1, 4100)
	for _, s := range set {
		txt := gen.Render(rr, s, gen.RenderOpts{})
		if c.Mine(idx) && gen.RelexGuard(txt, s) {
			switch s.Entry {
			case "expr":
				one("statements", "SELECT "+txt)
			case "type":
				one("statements", "SELECT CAST(NULL AS "+txt+")")
			case "ddl":
				one("ddls", txt)
			case "dml":
				one("dmls", txt)
			default:
				one("statements", txt)
			}
		}
		idx++
	}
}

// c11Shapes: statements whose parsing touches bracket, generic-type, hint, template and recovery code.
var c11Shapes = [][2]string{
	{"statements", "SELECT 1"}, {"statements", "SELECT (1)"}, {"statements", "SELECT (1, 2)"}, {"statements", "SELECT ((1, 2), (3))"},
	{"statements", "SELECT (SELECT 1)"}, {"statements", "(SELECT 1)"}, {"statements", "((SELECT 1) UNION ALL (SELECT 2))"},
	{"statements", "SELECT [1, 2][0]"}, {"statements", "SELECT ARRAY<STRUCT<a ARRAY<INT64>>>[]"}, {"statements", "SELECT STRUCT<a INT64, b STRING>(1, 'x')"},
	{"statements", "SELECT CAST(NULL AS ARRAY<ARRAY<INT64>>)"}, {"statements", "SELECT a >> 1, b << 2"}, {"statements", "SELECT a <> b"},
	{"statements", "SELECT CASE WHEN a THEN 1 ELSE 2 END"}, {"statements", "SELECT CASE a WHEN 1 THEN (2, 3) END"}, {"statements", "SELECT f(a, b => 1)"},
	{"statements", "SELECT COUNT(*), EXTRACT(DAY FROM d), CAST(a AS INT64)"}, {"statements", "SELECT a IN (1, 2), b IN UNNEST([1]), c BETWEEN 1 AND 2"},
	{"statements", "SELECT IF(a, b, c), DATE '2020-01-01', DATE_ADD(d, INTERVAL 1 DAY)"}, {"statements", "SELECT @p, a.b.c, t.*, * EXCEPT (a) FROM t"},
	{"statements", "@{a=1} SELECT 1 FROM t@{FORCE_INDEX=i} JOIN@{b=2} u USING (x)"}, {"statements", "WITH a AS (SELECT 1) SELECT * FROM a"},
	{"statements", "SELECT * FROM (SELECT 1) AS s, UNNEST([1]) WITH OFFSET o"}, {"statements", "SELECT * FROM t TABLESAMPLE BERNOULLI (1 PERCENT)"},
	{"statements", "SELECT 1 FROM t WHERE a GROUP BY a HAVING b ORDER BY c DESC LIMIT 1 OFFSET 2"}, {"statements", "FROM t |> WHERE a |> SELECT a, b,"},
	{"statements", "SELECT 1,"}, {"statements", "SELECT r'x', b\"y\", '''z''', 0x1F, 1.5e3, .5"}, {"statements", "SELECT `a`.`b`, a-b, a - -b, NOT a, ~b"},
	{"statements", "SELECT EXISTS(SELECT 1), ARRAY(SELECT 2), (SELECT 3)"}, {"statements", "SELECT a[OFFSET(1)], a[SAFE_ORDINAL(2)], s.f[0].g"},
	{"statements", "SELECT NEW a.b(1 AS x), {a: 1, b {c: 2}}"}, {"statements", "SELECT WITH(a AS 1, a + 1)"}, {"statements", "CALL p((1, 2), [3])"},
	{"statements", "INSERT INTO t (a, b) VALUES ((1, 2), DEFAULT), (3, (SELECT 4))"}, {"statements", "UPDATE t SET a = (1, 2).x, b = DEFAULT WHERE TRUE"},
	{"statements", "DELETE FROM t WHERE (a, b) IN ((1, 2)) THEN RETURN *"}, {"statements", "CREATE TABLE t (a ARRAY<STRING(MAX)>, b STRING(10) NOT NULL) PRIMARY KEY (a DESC)"},
	{"statements", "ALTER TABLE t ADD COLUMN IF NOT EXISTS c INT64 DEFAULT ((1))"}, {"statements", "CREATE INDEX i ON t (a, b DESC) STORING (c), INTERLEAVE IN p"},
	{"statements", "GRANT SELECT(a, b), INSERT ON TABLE t TO ROLE r"}, {"statements", "CREATE VIEW v SQL SECURITY INVOKER AS SELECT (1, 2)"},
	{"statements", "DROP TABLE IF EXISTS t"}, {"statements", "ANALYZE"}, {"statements", "CREATE CHANGE STREAM s FOR t(a, b), u"},
	{"ddls", "CREATE TABLE t (a INT64 AS ((1 + 2) * 3) STORED, CONSTRAINT c CHECK ((a, 1).a > 0)) PRIMARY KEY (a)"}, {"ddls", "ALTER DATABASE d SET OPTIONS (a = (1), b = [1, 2])"},
	{"ddls", "CREATE VIEW v SQL SECURITY INVOKER AS SELECT ((1, 2)), ARRAY<STRUCT<ARRAY<INT64>>>[]"},
	{"dmls", "INSERT OR UPDATE INTO t (a) VALUES ((1, 2))"}, {"dmls", "UPDATE t SET a = (1, 2), b.c = ARRAY<STRUCT<INT64>>[] WHERE (TRUE)"}, {"dmls", "DELETE t WHERE a IN ((1), (2, 3))"},
	// rejected statements: the recovery path, thousands of times in one parser
	{"statements", "SELECT (1, 2"}, {"statements", "SELECT 1 +"}, {"statements", "SELECT (1, 2) x y"}, {"ddls", "CREATE TABLE t (a ARRAY<"}, {"dmls", "INSERT INTO t (a) VALUES ((1, 2)"},
}
