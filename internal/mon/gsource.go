package mon

import (
	"verif/internal/gen"
)

// gSentence is one rendered sentence of grammar G.
type gSentence struct {
	S          gen.Sentence
	Text       string
	Opts       gen.RenderOpts
	Systematic bool
}

var renderPolicies = []gen.RenderOpts{
	{Trivia: 0, Case: 0, Quote: 0},
	{Trivia: 1, Case: 1, Quote: 0},
	{Trivia: 2, Case: 3, Quote: 1},
}

// gSentences yields the systematic set under the three render policies and nRandom random sentences (seed dependent),
// each kept only if the re-lex guard confirms that the text lexes to exactly the generated tokens. Sharded by index.
func gSentences(c *Ctx, nRandom int, f func(gs gSentence)) {
	set, cov, total := gen.SystematicSet()
	c.Res.Max["grammar_alternatives_total"] = float64(total)
	c.Res.Max["grammar_alternatives_taken_by_systematic_set"] = float64(cov)
	ns := max(c.NShards, 1)
	r := gen.NewRand(c.Seed, 4000+uint64(c.Shard))
	idx := 0
	for _, s := range set {
		for _, o := range renderPolicies {
			if idx%ns == c.Shard {
				txt := gen.Render(r, s, o)
				if len(txt) <= 16<<10 && gen.RelexGuard(txt, s) {
					c.Count("g_systematic", 1)
					f(gSentence{s, txt, o, true})
				} else {
					c.Count("g_relex_guard_rejected", 1)
				}
			}
			idx++
		}
	}
	g := gen.NewG(r)
	for i := 0; i < nRandom/ns; i++ {
		e := gen.StartSymbols[r.IntN(len(gen.StartSymbols))]
		s := g.Generate(e, 6+r.IntN(10))
		o := gen.RenderOpts{Trivia: r.IntN(3), Case: r.IntN(4), Quote: r.IntN(2)}
		txt := gen.Render(r, s, o)
		if len(txt) > 16<<10 || !gen.RelexGuard(txt, s) {
			c.Count("g_relex_guard_rejected", 1)
			continue
		}
		c.Count("g_random", 1)
		f(gSentence{s, txt, o, false})
	}
}

func init() {
	ExtraSentences = func(c *Ctx, n int, f func(entry, input string)) {
		gSentences(c, n, func(gs gSentence) {
			f(gs.S.Entry, gs.Text)
			if gs.S.Entry != "expr" && gs.S.Entry != "type" {
				// the same sentence through ParseStatement
				if gs.S.Entry != "statement" && len(gs.Text)%3 == 0 {
					f("statement", gs.Text)
				}
			}
		})
	}
}
