package mon

import (
	"verif/internal/gen"
)

// gSentence is one rendered sentence of grammar G.
type gSentence struct {
	S          gen.Sentence
	Text       string
	Opts       gen.RenderOpts
	Systematic bool
}

var renderPolicies = []gen.RenderOpts{
	{Trivia: 0, Case: 0, Quote: 0},
	{Trivia: 1, Case: 1, Quote: 0},
	{Trivia: 2, Case: 3, Quote: 1},
}

// gSentences yields the systematic set under the three render policies and nRandom random sentences (seed dependent),
// each kept only if the re-lex guard confirms that the text lexes to exactly the generated tokens. Sharded by index.
func gSentences(c *Ctx, nRandom int, f func(gs gSentence)) {
	set, cov, total := gen.SystematicSet()
	c.Res.Max["grammar_alternatives_total"] = float64(total)
	c.Res.Max["grammar_alternatives_taken_by_systematic_set"] = float64(cov)
	ns := max(c.NShards, 1)
	r := gen.NewRand(c.Seed, 4000+uint64(c.Shard))
	idx := 0
	for _, s := range set {
		for _, o := range renderPolicies {
			if idx%ns == c.Shard {
				txt := gen.Render(r, s, o)
				if len(txt) <= 16<<10 && gen.RelexGuard(txt, s) {
					c.Count("g_systematic", 1)
					f(gSentence{s, txt, o, true})
				} else {
					c.Count("g_relex_guard_rejected", 1)
				}
			}
			idx++
		}
	}
	g := gen.NewG(r)
	// names that spell pseudo-keywords (always back-quoted) are generated except where SQL() output is compared (K4)
	g.PKWNames = c.Prop != "C01" && c.Prop != "C02" && c.Prop != "C06"
	for i := 0; i < nRandom/ns; i++ {
		e := gen.StartSymbols[r.IntN(len(gen.StartSymbols))]
		s := g.Generate(e, 6+r.IntN(10))
		o := gen.RenderOpts{Trivia: r.IntN(3), Case: r.IntN(4), Quote: r.IntN(2)}
		txt := gen.Render(r, s, o)
		if len(txt) > 16<<10 || !gen.RelexGuard(txt, s) {
			c.Count("g_relex_guard_rejected", 1)
			continue
		}
		c.Count("g_random", 1)
		f(gSentence{s, txt, o, false})
	}
}

func init() {
	ExtraSentences = func(c *Ctx, n int, f func(entry, input string)) {
		gSentences(c, n, func(gs gSentence) {
			f(gs.S.Entry, gs.Text)
			if gs.S.Entry != "expr" && gs.S.Entry != "type" {
				// the same sentence through ParseStatement
				if gs.S.Entry != "statement" && len(gs.Text)%3 == 0 {
					f("statement", gs.Text)
				}
			}
		})
	}
}

// nearMissWorkload: systematic single-token edits, bracket-group deletions and token moves (1-3 positions) of every
// sentence of the systematic set in canonical spelling. Most results are rejected; the accepted ones are shapes that
// neither the grammar nor the corpus contains (clause-order swaps, missing groups). Sharded by sentence.
func nearMissWorkload(c *Ctx, f func(entry, input string)) {
	set, _, _ := gen.SystematicSet()
	r := gen.NewRand(1, 4100)
	for i, s := range set {
		if !c.Mine(i) {
			continue
		}
		txt := gen.Render(r, s, gen.RenderOpts{})
		if len(txt) > 4000 || !gen.RelexGuard(txt, s) {
			continue
		}
		emit := func(m string) {
			f(s.Entry, m)
			c.Count("near_miss_inputs", 1)
		}
		gen.SystematicEdits(txt, emit)
		gen.SystematicMoves(txt, emit)
		if len(txt) <= 1500 {
			gen.SystematicSwaps(txt, emit)
		}
		for _, w := range []int{13, 70} {
			gen.WidenLists(txt, w, func(m string) {
				emit(m)
				c.Count("widened_list_inputs", 1)
			})
		}
		if len(txt) <= 1200 {
			gen.SystematicDuplicates(txt, emit)
		}
		for _, pre := range gen.HostilePrefixes {
			emit(pre + txt)
		}
	}
	// every corpus file: hostile prefixes, duplicated token runs; short ones with every "future syntax" phrase inserted
	for i, cc := range c.Corpus() {
		if cc.Bad || !c.Mine(i) {
			continue
		}
		e := cc.Entries()[0]
		emit := func(m string) {
			f(e, m)
			c.Count("near_miss_inputs", 1)
		}
		for _, pre := range gen.HostilePrefixes {
			emit(pre + cc.Text)
		}
		if len(cc.Text) <= 3000 {
			gen.WidenLists(cc.Text, 17, func(m string) {
				emit(m)
				c.Count("widened_list_inputs", 1)
			})
		}
		if len(cc.Text) <= 600 {
			gen.SystematicDuplicates(cc.Text, emit)
		}
		if len(cc.Text) <= 160 {
			gen.PhraseInsertions(cc.Text, emit)
		}
	}
	// token moves of every corpus file and of random sentences (pairs of optional clauses that the each-choice set
	// does not combine)
	for i, cc := range c.Corpus() {
		if cc.Bad || !c.Mine(i) {
			continue
		}
		e := cc.Entries()[0]
		gen.SystematicMoves(cc.Text, func(m string) {
			f(e, m)
			c.Count("near_miss_inputs", 1)
		})
		if len(cc.Text) <= 1500 {
			gen.SystematicSwaps(cc.Text, func(m string) {
				f(e, m)
				c.Count("near_miss_inputs", 1)
			})
		}
	}
	rr := gen.NewRand(c.Seed, 4300+uint64(c.Shard))
	g := gen.NewG(rr)
	for i := 0; i < c.Pick(1500, 30000)/max(c.NShards, 1); i++ {
		s := g.Generate(gen.StartSymbols[rr.IntN(len(gen.StartSymbols))], 4+rr.IntN(6))
		txt := gen.Render(rr, s, gen.RenderOpts{})
		if len(txt) > 1500 || !gen.RelexGuard(txt, s) {
			continue
		}
		gen.SystematicMoves(txt, func(m string) {
			f(s.Entry, m)
			c.Count("near_miss_inputs", 1)
		})
	}
}

// quotedPKWWorkload: every sentence of the systematic set with one pseudo-keyword token written back-quoted
// (a back-quoted identifier is never a pseudo keyword; most results are rejected). f gets the word as tag.
func quotedPKWWorkload(c *Ctx, f func(entry, input, word string)) {
	set, _, _ := gen.SystematicSet()
	r := gen.NewRand(1, 4200)
	idx := 0
	for _, s := range set {
		for i, t := range s.Toks {
			if t.Role != gen.PKW {
				continue
			}
			if c.Mine(idx) {
				s2 := gen.Sentence{Entry: s.Entry, Toks: append([]gen.Tok(nil), s.Toks...)}
				s2.Toks[i] = gen.Tok{Role: gen.ID, Text: t.Text, Quote: true}
				txt := gen.Render(r, s2, gen.RenderOpts{})
				if len(txt) <= 4000 {
					f(s.Entry, txt, t.Text)
					c.Count("quoted_pkw_inputs", 1)
				}
			}
			idx++
		}
	}
}

// pkwNamedWorkload: every sentence of the systematic set with one identifier replaced by a back-quoted name that
// spells a pseudo-keyword used by some sentence of the same statement kind (the collisions that matter are with the
// keywords of the same statement). f gets (entry, text).
func pkwNamedWorkload(c *Ctx, f func(entry, input string)) {
	set, _, _ := gen.SystematicSet()
	r := gen.NewRand(1, 4400)
	idx := 0
	// pseudo-keywords per statement kind (kind = first two tokens): the union over all sentences of that kind
	kindOf := func(s gen.Sentence) string {
		k := s.Entry
		for i := 0; i < 2 && i < len(s.Toks); i++ {
			if s.Toks[i].Role == gen.KW || s.Toks[i].Role == gen.PKW {
				k += " " + s.Toks[i].Text
			}
		}
		return k
	}
	kindWords := map[string]map[string]bool{}
	for _, s := range set {
		k := kindOf(s)
		if kindWords[k] == nil {
			kindWords[k] = map[string]bool{}
		}
		for _, t := range s.Toks {
			if t.Role == gen.PKW {
				kindWords[k][t.Text] = true
			}
		}
	}
	for _, s := range set {
		words := kindWords[kindOf(s)]
		var ws []string
		for w := range words {
			switch w {
			case "OFFSET", "ORDINAL", "SAFE_OFFSET", "SAFE_ORDINAL":
				continue // scope probe (K4 family)
			case "BOOL", "INT64", "FLOAT32", "FLOAT64", "DATE", "TIMESTAMP", "NUMERIC", "JSON", "TOKENLIST", "STRING", "BYTES":
				continue // a back-quoted builtin type name is read as the builtin type (K4 family, scope probe)
			}
			ws = append(ws, w)
		}
		sortStrings(ws)
		for i, t := range s.Toks {
			if t.Role != gen.ID {
				continue
			}
			for _, w := range ws {
				if c.Mine(idx) {
					s2 := gen.Sentence{Entry: s.Entry, Toks: append([]gen.Tok(nil), s.Toks...)}
					name := w
					if (i+len(w))%2 == 0 {
						name = lowerASCII(w)
					}
					s2.Toks[i] = gen.Tok{Role: gen.ID, Text: name, Quote: true}
					txt := gen.Render(r, s2, gen.RenderOpts{})
					if len(txt) <= 4000 && gen.RelexGuard(txt, s2) {
						f(s.Entry, txt)
						c.Count("pkw_named_inputs", 1)
					}
				}
				idx++
			}
		}
	}
}

func lowerASCII(s string) string {
	b := []byte(s)
	for i, ch := range b {
		if ch >= 'A' && ch <= 'Z' {
			b[i] = ch + 32
		}
	}
	return string(b)
}

func sortStrings(l []string) {
	for i := 1; i < len(l); i++ {
		for j := i; j > 0 && l[j] < l[j-1]; j-- {
			l[j], l[j-1] = l[j-1], l[j]
		}
	}
}

// foldAlikeWorkload: every sentence of the systematic set with one pseudo-keyword replaced by a back-quoted identifier
// that differs from the word only by Unicode case folding (U+017F for s, U+212A for k, dotless / dotted i): such a
// name is an ordinary identifier, never the keyword or builtin type it resembles. Mostly rejected; judged when
// accepted.
func foldAlikeWorkload(c *Ctx, f func(entry, input string)) {
	set, _, _ := gen.SystematicSet()
	r := gen.NewRand(1, 4500)
	idx := 0
	alike := func(w string) []string {
		var out []string
		lw := lowerASCII(w)
		for i := 0; i < len(lw); i++ {
			switch lw[i] {
			case 's':
				out = append(out, lw[:i]+"ſ"+lw[i+1:], w[:i]+"ſ"+w[i+1:])
			case 'k':
				out = append(out, lw[:i]+"K"+lw[i+1:], w[:i]+"K"+w[i+1:])
			case 'i':
				out = append(out, lw[:i]+"ı"+lw[i+1:], w[:i]+"İ"+w[i+1:])
			}
		}
		return out
	}
	for _, s := range set {
		for i, t := range s.Toks {
			if t.Role != gen.PKW {
				continue
			}
			for _, a := range alike(t.Text) {
				if c.Mine(idx) {
					s2 := gen.Sentence{Entry: s.Entry, Toks: append([]gen.Tok(nil), s.Toks...)}
					s2.Toks[i] = gen.Tok{Role: gen.ID, Text: a, Quote: true}
					txt := gen.Render(r, s2, gen.RenderOpts{})
					if len(txt) <= 4000 {
						f(s.Entry, txt)
						c.Count("fold_alike_inputs", 1)
					}
				}
				idx++
			}
		}
	}
}

// sameNameWorkload: every sentence of the systematic set with two of its identifiers made equal (each identifier
// given the name of the previous one and of the one before that), and with all identifiers made equal. A printer
// that abbreviates `x AS x`, `t.t`, `a = a` ... or a parser that compares names where it should compare positions
// shows only when two names that the generator draws independently happen to coincide. Names are not semantic for a
// parser, so every variant is a sentence of the grammar whenever the original is. Canonical spelling, re-lex guard.
func sameNameWorkload(c *Ctx, f func(entry, input string)) {
	set, _, _ := gen.SystematicSet()
	r := gen.NewRand(1, 4400)
	for si, s := range set {
		if !c.Mine(si) {
			continue
		}
		var ids []int
		for i, t := range s.Toks {
			if t.Role == gen.ID {
				ids = append(ids, i)
			}
		}
		if len(ids) < 2 {
			continue
		}
		emit := func(mod func(toks []gen.Tok)) {
			v := gen.Sentence{Entry: s.Entry, Toks: append([]gen.Tok{}, s.Toks...)}
			mod(v.Toks)
			txt := gen.Render(r, v, renderPolicies[0])
			if len(txt) <= 16<<10 && gen.RelexGuard(txt, v) {
				f(v.Entry, txt)
				c.Count("same_name_variants", 1)
			}
		}
		for k := 1; k < len(ids); k++ {
			for _, d := range []int{1, 2} {
				if k-d < 0 {
					continue
				}
				a, b := ids[k-d], ids[k]
				if s.Toks[a].Text == s.Toks[b].Text && s.Toks[a].Quote == s.Toks[b].Quote {
					continue
				}
				emit(func(toks []gen.Tok) { toks[b].Text, toks[b].Quote = toks[a].Text, toks[a].Quote })
			}
		}
		// alias collapse: `operand AS x` rewritten to `x AS x` (the operand is the balanced token run in front of AS back
		// to the previous comma, open bracket or keyword); variants that are no longer sentences are rejected by the
		// parser and skipped by the round-trip oracles, which judge accepted inputs only
		for k := 1; k+1 < len(s.Toks); k++ {
			if s.Toks[k].Role != gen.KW || s.Toks[k].Text != "AS" || s.Toks[k+1].Role != gen.ID {
				continue
			}
			depth, start := 0, k
		scan:
			for j := k - 1; j >= 0; j-- {
				tk := s.Toks[j]
				switch {
				case tk.Role == gen.PUNCT && (tk.Text == ")" || tk.Text == "]" || tk.Text == "}"):
					depth++
				case tk.Role == gen.PUNCT && (tk.Text == "(" || tk.Text == "[" || tk.Text == "{"):
					if depth == 0 {
						break scan
					}
					depth--
				case depth == 0 && ((tk.Role == gen.PUNCT && tk.Text == ",") || tk.Role == gen.KW):
					break scan
				}
				start = j
			}
			if start >= k || (k-start == 1 && s.Toks[start].Role == gen.ID && s.Toks[start].Text == s.Toks[k+1].Text) {
				continue
			}
			v := gen.Sentence{Entry: s.Entry}
			v.Toks = append(v.Toks, s.Toks[:start]...)
			v.Toks = append(v.Toks, s.Toks[k+1])
			v.Toks = append(v.Toks, s.Toks[k:]...)
			txt := gen.Render(r, v, renderPolicies[0])
			if len(txt) <= 16<<10 && gen.RelexGuard(txt, v) {
				f(v.Entry, txt)
				c.Count("alias_collapse_variants", 1)
			}
		}
		emit(func(toks []gen.Tok) {
			for _, i := range ids[1:] {
				toks[i].Text, toks[i].Quote = toks[ids[0]].Text, toks[ids[0]].Quote
			}
		})
	}
}
