package mon

import (
	"fmt"

	"github.com/cloudspannerecosystem/memefish/ast"

	"verif/internal/astx"
	"verif/internal/gen"
)

// ---------------------------------------------------------------------------
// C06: node positions are exact

// roundTripHolds is the C01 precondition, evaluated silently.
func roundTripHolds(entry string, p *Parsed) bool {
	s1, pv := joinSQL(p.Roots)
	if pv != nil {
		return false
	}
	p2 := Parse(entry, s1)
	if p2.Panic != nil || p2.Err != nil || len(p2.Roots) != len(p.Roots) {
		return false
	}
	for i := range p.Roots {
		if len(astx.Equiv(p.Roots[i], p2.Roots[i], false)) > 0 {
			return false
		}
	}
	s2, pv2 := joinSQL(p2.Roots)
	return pv2 == nil && s2 == s1
}

func entryOfRoot(entry string) string { return SingleOf(entry) }

// CheckC06 observes one accepted input.
func CheckC06(c *Ctx, entry, input string) {
	c.Journal(entry, input)
	p := Parse(entry, input)
	if p.Panic != nil || p.Err != nil || len(p.Roots) == 0 {
		c.Count("not_accepted", 1)
		return
	}
	if !roundTripHolds(entry, p) {
		c.Count("skipped_round_trip_does_not_hold", 1)
		return
	}
	c.Eval()
	c.Count("inputs", 1)
	single := entryOfRoot(entry)
	starts, ends, aligned := lexBoundaries(input)
	for ri, root := range p.Roots {
		infos := astx.Nodes(root)
		failed := make([]bool, len(infos)) // this node or a descendant failed
		// ranges and token alignment of every node, up front
		type rng struct {
			a, b           int
			ok             bool
			misPos, misEnd bool
		}
		rs := make([]rng, len(infos))
		for i, in := range infos {
			if in.TypedNil {
				continue
			}
			ps, pv1 := PosOf(in.Node)
			es, pv2 := EndOf(in.Node)
			if pv1 != nil || pv2 != nil {
				continue
			}
			r := rng{a: int(ps), b: int(es)}
			r.ok = 0 <= r.a && r.a < r.b && r.b <= len(input)
			if r.ok && aligned {
				r.misPos, r.misEnd = !starts[r.a], !ends[r.b]
			}
			rs[i] = r
		}
		for i := len(infos) - 1; i >= 0; i-- {
			in := infos[i]
			if in.TypedNil {
				continue
			}
			// descendants failed? (descendants have larger indices and were processed already)
			descFailed := false
			inherited := false
			for j := i + 1; j < len(infos) && infos[j].Depth > in.Depth; j++ {
				if failed[j] {
					descFailed = true
					break
				}
				// a bound that is not token-aligned and comes from a descendant is the descendant's finding (C05 reports it)
				if rs[j].ok && ((rs[j].misEnd && rs[j].b == rs[i].b) || (rs[j].misPos && rs[j].a == rs[i].a)) {
					inherited = true
				}
			}
			if descFailed {
				failed[i] = true
				continue
			}
			if !rs[i].ok {
				c.Count("skipped_bad_range_left_to_C05", 1)
				failed[i] = true
				continue
			}
			if inherited {
				c.Count("skipped_bound_inherited_from_misaligned_descendant", 1)
				failed[i] = true
				continue
			}
			a, b := rs[i].a, rs[i].b
			tn := astx.TypeName(in.Node)
			c.Count("nodes", 1)
			// (a) stand-alone parse of the node's own text
			e := entryForSlot(in.Slot.StaticName())
			if in.Parent < 0 {
				e = single
			}
			if e != "" {
				sub := input[a:b]
				c.Journal(e, sub)
				sp := Parse(e, sub)
				c.Count("substring_parses", 1)
				c.SetAdd("substring_parsed_types", tn)
				switch {
				case sp.Panic != nil:
				case sp.Err != nil:
					c.Violate("c06:substring-rejected:"+tn, entry, input, fmt.Sprintf("%s in slot %s has range [%d,%d) = %q, which %s rejects: %v", tn, in.Slot, a, b, clip(sub, 200), e, sp.Err))
					failed[i] = true
				default:
					got := sp.Root()
					if e == "query" {
						if _, isQS := in.Node.(*ast.QueryStatement); !isQS {
							got = unwrapQuery(got)
						}
					}
					if d := astx.Equiv(in.Node, got, false); len(d) > 0 {
						c.Violate("c06:substring-differs:"+tn, entry, input, fmt.Sprintf("%s in slot %s has range [%d,%d) = %q, which parses to a different tree: %s", tn, in.Slot, a, b, clip(sub, 200), d[0]))
						failed[i] = true
					}
				}
				if failed[i] {
					continue
				}
			}
			// (b) splice the node's SQL() into its range
			sql, pv := SQLOf(in.Node)
			if pv != nil {
				continue
			}
			spliced := input[:a] + " " + sql + " " + input[b:]
			c.Journal(entry, spliced)
			bp := Parse(entry, spliced)
			c.Count("splices", 1)
			switch {
			case bp.Panic != nil:
			case bp.Err != nil:
				c.Violate("c06:splice-rejected:"+tn, entry, input, fmt.Sprintf("%s in slot %s has range [%d,%d) = %q; replacing it by its SQL() %q gives %q, which is rejected: %v", tn, in.Slot, a, b, clip(input[a:b], 120), clip(sql, 120), clip(spliced, 300), bp.Err))
				failed[i] = true
			case len(bp.Roots) != len(p.Roots):
				c.Violate("c06:splice-differs:"+tn, entry, input, fmt.Sprintf("%s range [%d,%d): splicing SQL() changes the number of statements", tn, a, b))
				failed[i] = true
			default:
				if d := astx.Equiv(p.Roots[ri], bp.Roots[ri], false); len(d) > 0 {
					c.Violate("c06:splice-differs:"+tn, entry, input, fmt.Sprintf("%s in slot %s has range [%d,%d) = %q; replacing it by its SQL() %q changes the tree: %s", tn, in.Slot, a, b, clip(input[a:b], 120), clip(sql, 120), d[0]))
					failed[i] = true
				}
			}
		}
	}
}

func RunC06(c *Ctx) {
	n := 0
	one := func(entry, input string) {
		CheckC06(c, entry, input)
		c.Distinct(entry + "\x00" + input)
		n++
		if n%1000 == 1 {
			c.Sample(entry, input, "")
		}
	}
	corpusWorkload(c, false, func(entry string, cc gen.CorpusCase) {
		one(entry, cc.Text)
	})
	// the same statement as second element of a list: nothing in it may sit at offset 0
	second := func(entry, text string) {
		switch ListOf(entry) {
		case "ddls":
			one("ddls", "DROP TABLE x;\n"+text)
			one("statements", "SELECT 1; "+text)
		case "dmls":
			one("dmls", "DELETE FROM x WHERE TRUE;\n"+text)
		case "statements":
			one("statements", "SELECT 1;\n"+text)
		}
	}
	corpusWorkload(c, false, func(entry string, cc gen.CorpusCase) {
		if len(cc.Text) <= 1500 {
			second(entry, cc.Text)
		}
	})
	idx := 0
	for _, s := range typeSeeds {
		if c.Mine(idx) {
			one("type", s)
		}
		idx++
	}
	gSentences(c, c.Pick(5_000, 200_000), func(gs gSentence) {
		if len(gs.Text) > 4000 {
			return
		}
		one(gs.S.Entry, gs.Text)
		if gs.Systematic && gs.Opts == renderPolicies[0] && len(gs.Text) <= 1500 {
			second(gs.S.Entry, gs.Text)
		}
	})
	nearMissWorkload(c, func(entry, input string) {
		if len(input) <= 1200 { // every node costs a re-parse of its substring and of the spliced text
			CheckC06(c, entry, input)
		}
	})
	operandMatrix(c, func(entry, input string) { CheckC06(c, entry, input) })
	// accepted token mutants: shapes no author wrote
	errorWorkload(c, c.Pick(40_000, 800_000), func(entry, input string) {
		if entry == "lex" || entry == "split" || len(input) > 4000 {
			return
		}
		CheckC06(c, entry, input)
	})
}
