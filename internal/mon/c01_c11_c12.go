package mon

import (
	"fmt"
	"math/rand/v2"
	"reflect"
	"strings"

	memefish "github.com/cloudspannerecosystem/memefish"
	"github.com/cloudspannerecosystem/memefish/ast"
	"github.com/cloudspannerecosystem/memefish/token"

	"verif/internal/astx"
	"verif/internal/gen"
	"verif/internal/reflex"
)

// ---------------------------------------------------------------------------
// C01: parse -> unparse -> parse is stable

// joinSQL returns the SQL text of all roots (lists joined with ";\n").
func joinSQL(roots []ast.Node) (s string, pv any) {
	var parts []string
	for _, r := range roots {
		if astx.IsNilNode(r) {
			return "", "nil root"
		}
		x, p := SQLOf(r)
		if p != nil {
			return "", p
		}
		parts = append(parts, x)
	}
	return strings.Join(parts, ";\n"), nil
}

// entryForSlot maps the static slot type of a node to the entry point that parses it on its own.
func entryForSlot(static string) string {
	switch static {
	case "Expr":
		return "expr"
	case "Type":
		return "type"
	case "QueryExpr":
		return "query"
	case "Statement":
		return "statement"
	case "DDL":
		return "ddl"
	case "DML":
		return "dml"
	}
	return ""
}

// unwrapQuery strips the QueryStatement wrapper that ParseQuery adds.
func unwrapQuery(n ast.Node) ast.Node {
	if qs, ok := n.(*ast.QueryStatement); ok && qs != nil && qs.Hint == nil {
		return qs.Query
	}
	return n
}

// roundTripNode re-parses n.SQL() with entry e and compares; returns "" if fine, else a diagnosis
// (and, when the failure is a tree difference, its context-free signature).
func roundTripNode(n ast.Node, e string) (diag, diffSig string) {
	s, pv := SQLOf(n)
	if pv != nil {
		return "", ""
	}
	p := Parse(e, s)
	if p.Panic != nil {
		return fmt.Sprintf("re-parse of %q panics: %v", s, p.Panic), ""
	}
	if p.Err != nil {
		return fmt.Sprintf("SQL() = %q is rejected: %v", s, p.Err), ""
	}
	got := p.Root()
	if e == "query" {
		got = unwrapQuery(got)
	}
	if d := astx.Equiv(n, got, false); len(d) > 0 {
		return fmt.Sprintf("SQL() = %q parses to a different tree: %s", s, d[0]), d[0].Sig()
	}
	return "", ""
}

// rootCause finds the deepest stand-alone parseable node whose own round trip fails.
func rootCause(roots []ast.Node) (typ, diag, diffSig string) {
	for _, root := range roots {
		infos := astx.Nodes(root)
		for i := len(infos) - 1; i >= 1; i-- {
			in := infos[i]
			if in.TypedNil {
				continue
			}
			e := entryForSlot(in.Slot.StaticName())
			if e == "" {
				continue
			}
			if d, ds := roundTripNode(in.Node, e); d != "" {
				return astx.TypeName(in.Node), d, ds
			}
		}
	}
	return "", "", ""
}

// CheckC01 observes one case; it reports whether the input was accepted and the round trip held.
func CheckC01(c *Ctx, entry, input string) (accepted, held bool) {
	c.Journal(entry, input)
	p := Parse(entry, input)
	c.Eval()
	if p.Panic != nil || p.Err != nil {
		c.Count("not_accepted", 1)
		return false, false
	}
	if len(p.Roots) == 0 {
		c.Count("empty_lists", 1)
		return true, true
	}
	c.Count("accepted", 1)
	s1, pv := joinSQL(p.Roots)
	if pv != nil {
		c.Count("sql_panics_left_to_C04", 1)
		return true, false
	}
	c.Journal(entry, s1)
	p2 := Parse(entry, s1)
	if p2.Panic != nil {
		c.Violate("c01:reparse-panic:"+PanicClass(p2.Panic), entry, input, fmt.Sprintf("SQL() = %q; re-parse panics: %v", s1, p2.Panic))
		return true, false
	}
	if p2.Err != nil {
		typ, diag, ds := rootCause(p.Roots)
		if typ == "" {
			typ, diag = astx.TypeName(p.Roots[0]), fmt.Sprintf("SQL() = %q is rejected: %v", s1, p2.Err)
		}
		if ds != "" {
			c.Violate("c01:astdiff:"+ds, entry, input, diag)
		} else {
			c.Violate("c01:reparse-error:"+typ, entry, input, diag)
		}
		return true, false
	}
	held = true
	if len(p.Roots) != len(p2.Roots) {
		c.Violate("c01:list-length", entry, input, fmt.Sprintf("%d statements, SQL() re-parses to %d", len(p.Roots), len(p2.Roots)))
		return true, false
	}
	for i := range p.Roots {
		for _, d := range astx.Equiv(p.Roots[i], p2.Roots[i], false) {
			c.Violate("c01:astdiff:"+d.Sig(), entry, input, fmt.Sprintf("SQL() = %q re-parses to a different tree: %s", clip(s1, 300), d))
			held = false
		}
	}
	s2, pv2 := joinSQL(p2.Roots)
	if pv2 == nil && s2 != s1 {
		typ, _, _ := rootCause(p.Roots)
		if typ == "" {
			typ = astx.TypeName(p.Roots[0])
		}
		c.Violate("c01:not-fixed-point:"+typ, entry, input, fmt.Sprintf("first SQL() = %q, second SQL() = %q", clip(s1, 300), clip(s2, 300)))
		held = false
	}
	return true, held
}

func clip(s string, n int) string {
	if len(s) > n {
		return s[:n] + "…"
	}
	return s
}

func RunC01(c *Ctx) {
	n := 0
	treeWorkload(c, c.Pick(400_000, 8_000_000), c.Pick(60_000, 1_200_000), func(entry, input string) {
		acc, _ := CheckC01(c, entry, input)
		if acc {
			c.Distinct(entry + "\x00" + input)
			n++
			if n%3000 == 1 {
				c.Sample(entry, input, "accepted")
			}
		}
	})
	operandMatrix(c, func(entry, input string) { CheckC01(c, entry, input) })
	valueSlotMatrix(c, func(entry, input string) { CheckC01(c, entry, input) })
	foldAlikeWorkload(c, func(entry, input string) { CheckC01(c, entry, input) })
	sameNameWorkload(c, func(entry, input string) { CheckC01(c, entry, input) })
}

// ---------------------------------------------------------------------------
// C12: SplitRawStatements partitions at top-level semicolons

func isAllSpace(s string) bool {
	for i := 0; i < len(s); i++ {
		ch := s[i]
		if ch == ' ' || (ch >= 9 && ch <= 13) {
			continue
		}
		if n := reflex.UniWS(s[i:]); n > 0 {
			i += n - 1
			continue
		}
		return false
	}
	return true
}

// sepOK: whitespace + exactly one ';' + whitespace
func sepOK(s string) bool {
	i := strings.IndexByte(s, ';')
	if i < 0 {
		return false
	}
	return isAllSpace(s[:i]) && isAllSpace(s[i+1:])
}

func CheckC12(c *Ctx, input string) {
	ref := reflex.Lex(input)
	c.Journal("split", input)
	var res []*memefish.RawStatement
	var err error
	pv, _ := callSUT(func() { res, err = memefish.SplitRawStatements(FilePath, input) })
	c.Eval()
	if pv != nil {
		c.Count("panics_left_to_C03", 1)
		return
	}
	switch ref.Status {
	case reflex.Unspecified:
		c.Count("unspecified", 1)
		return
	case reflex.Reject:
		c.Count("ref_reject", 1)
		if err == nil {
			c.Violate("c12:accepts-lexical-error:"+ref.Why, "split", input, fmt.Sprintf("the input has a lexical error at %d (%s) but SplitRawStatements returns %d pieces", ref.ErrPos, ref.Why, len(res)))
		}
		return
	}
	c.Count("ref_accept", 1)
	if err != nil {
		c.Violate("c12:rejects-valid", "split", input, fmt.Sprintf("the input lexes (%d tokens) but SplitRawStatements fails: %v", len(ref.Toks), err))
		return
	}
	v := func(sig, d string) { c.Violate("c12:"+sig, "split", input, d) }
	if len(res) == 0 {
		v("no-pieces", "no piece returned")
		return
	}
	c.Count("pieces", int64(len(res)))
	prevEnd := 0
	for i, r := range res {
		if r == nil {
			v("nil-piece", fmt.Sprintf("piece %d is nil", i))
			return
		}
		ps, es := int(r.Pos), int(r.End)
		if !(0 <= ps && ps <= es && es <= len(input)) {
			v("range", fmt.Sprintf("piece %d has range [%d,%d) outside 0..%d", i, ps, es, len(input)))
			return
		}
		if r.Statement != input[ps:es] {
			v("text", fmt.Sprintf("piece %d: Statement %q != input[%d:%d] %q", i, r.Statement, ps, es, input[ps:es]))
		}
		if ps < prevEnd {
			v("overlap", fmt.Sprintf("piece %d starts at %d before the end %d of the previous piece", i, ps, prevEnd))
			return
		}
		gap := input[prevEnd:ps]
		if i == 0 {
			if !isAllSpace(gap) {
				v("head", fmt.Sprintf("text %q before the first piece is not whitespace", gap))
			}
		} else if !sepOK(gap) {
			v("gap", fmt.Sprintf("text %q between piece %d and %d is not whitespace plus exactly one ';'", gap, i-1, i))
		}
		prevEnd = es
	}
	if tail := input[prevEnd:]; tail != "" && !sepOK(tail) {
		v("tail", fmt.Sprintf("text %q after the last piece is not whitespace plus exactly one ';'", tail))
	}
	inPiece := func(a, b int) int {
		k := 0
		for _, r := range res {
			if int(r.Pos) <= a && b <= int(r.End) {
				k++
			}
		}
		return k
	}
	semis := 0
	for _, t := range ref.Toks {
		if t.Kind == ";" {
			semis++
			// a ';' token must not lie inside a non-empty piece
			for i, r := range res {
				if int(r.Pos) <= t.Pos && t.End <= int(r.End) {
					v("semicolon-in-piece", fmt.Sprintf("piece %d [%d,%d) contains the ';' token at %d", i, r.Pos, r.End, t.Pos))
				}
			}
			continue
		}
		if k := inPiece(t.Pos, t.End); k != 1 {
			// zero-length pieces can share a boundary; count only pieces that really cover the token
			v("token-not-in-one-piece", fmt.Sprintf("token %q [%d,%d) lies in %d pieces", input[t.Pos:t.End], t.Pos, t.End, k))
			break
		}
	}
	for _, cm := range ref.Comments {
		if k := inPiece(cm.Pos, cm.End); k != 1 {
			v("comment-not-in-one-piece", fmt.Sprintf("comment %q [%d,%d) lies in %d pieces", input[cm.Pos:cm.End], cm.Pos, cm.End, k))
			break
		}
	}
	c.Count("semicolons", int64(semis))
	c.Count("comments", int64(len(ref.Comments)))
	if semis > 0 && len(ref.Toks) > semis {
		c.Distinct(input)
	}
}

// listWorkload builds ';'-joined statement lists with hostile trivia around the separators.
// f receives (list entry, text).
func listWorkload(c *Ctx, n int, withMutants bool, f func(entry, input string)) {
	cs := c.Corpus()
	var byKind = map[string][]gen.CorpusCase{}
	for _, cc := range cs {
		if cc.Dir == "expr" || cc.Bad {
			continue
		}
		switch cc.Dir {
		case "ddl":
			byKind["ddls"] = append(byKind["ddls"], cc)
		case "dml":
			byKind["dmls"] = append(byKind["dmls"], cc)
		}
		byKind["statements"] = append(byKind["statements"], cc)
	}
	seps := []string{";", " ; ", ";\n", "\n;\n", ";;", "; ;", ";/*c*/", "/*c*/;", "; -- c\n", "\n-- c;\n;", ";/* ; */", "; # ;\n", ";\t", " ;\r\n", ";-- x\n--y\n", "\n;/*a*//*b*/\n"}
	extras := []string{"SELECT 1,", "SELECT a, b,", "SELECT ';'", "SELECT \"a;b\"", "SELECT `a;b` FROM t", "SELECT 1 /* ; */", "SELECT 1 -- ;\n", "SELECT ''';\n;'''", "SELECT r';\\''", "SELECT 1,\n", "SELECT * FROM t,", "SELECT 1, -- c\n", "FROM t |> SELECT a,", "FROM t |> SELECT a, b, ", "SELECT 1 |> SELECT a,", "SELECT 1 |> WHERE a |> SELECT DISTINCT a, b,", "CREATE VIEW v SQL SECURITY INVOKER AS SELECT a,", "INSERT INTO t (a) SELECT 1,", "FROM t", "FROM t |> WHERE a", "(SELECT 1)", "SELECT 1 UNION ALL SELECT 2,", "WITH a AS (SELECT 1) SELECT 2,", "SELECT AS STRUCT 1,", "@{a=1} SELECT 1,"}
	ns := max(c.NShards, 1)
	r := gen.NewRand(c.Seed, 1100+uint64(c.Shard))
	kinds := []string{"statements", "statements", "ddls", "dmls"}
	for i := 0; i < n/ns; i++ {
		kind := kinds[r.IntN(len(kinds))]
		pool := byKind[kind]
		k := 1 + r.IntN(4)
		var sb strings.Builder
		if r.IntN(4) == 0 {
			sb.WriteString(seps[r.IntN(len(seps))])
		}
		for j := 0; j < k; j++ {
			var st string
			switch {
			case kind == "statements" && r.IntN(5) == 0:
				st = extras[r.IntN(len(extras))]
			case withMutants && r.IntN(5) == 0:
				st = gen.Mutate(r, pool[r.IntN(len(pool))].Text, 2)
			default:
				st = strings.TrimRight(pool[r.IntN(len(pool))].Text, " \t\r\n")
			}
			// a statement ending in a line comment would swallow the separator: always a newline before it
			sb.WriteString(st)
			if j < k-1 || r.IntN(2) == 0 {
				sb.WriteString("\n")
				sb.WriteString(seps[r.IntN(len(seps))])
			}
		}
		f(kind, sb.String())
	}
}

func RunC12(c *Ctx) {
	n := 0
	if c.Shard == 0 {
		c12Sequences(c)
	}
	one := func(s string) {
		CheckC12(c, s)
		n++
		if n%30000 == 1 {
			c.Sample("split", s, "")
		}
	}
	listWorkload(c, c.Pick(100_000, 2_000_000), true, func(_, s string) { one(s) })
	// exhaustive short strings over an alphabet with separators, quotes and comment openers
	alpha := []byte("a;'\"`-/*#\n \\")
	L := c.Pick(6, 7)
	total := gen.EnumCountOver(len(alpha), L)
	buf := make([]byte, 0, 8)
	for i := c.Shard; i < total; i += max(c.NShards, 1) {
		buf = gen.EnumStringOver(alpha, i, buf)
		CheckC12(c, string(buf))
	}
	c.Res.Exhaustive[fmt.Sprintf("alphabet{a ; ' \" ` - / * # LF SP \\}_len<=%d", L)] = true
	// token soups and hostile bytes
	r := gen.NewRand(c.Seed, 1200+uint64(c.Shard))
	for i := 0; i < c.Pick(100_000, 2_000_000)/max(c.NShards, 1); i++ {
		s := gen.RandBytes(r, 40)
		if r.IntN(2) == 0 {
			s = strings.ReplaceAll(s, " ", ";")
		}
		one(s)
	}
	// the literal matrix (every prefix x quote form x escape / backslash run / quote run, complete and truncated), alone
	// and between two separators: where a literal ends decides where the statement ends
	{
		k := 0
		gen.LiteralMatrix(func(s string) {
			if c.Mine(k) {
				one(s)
				one("a;" + s + ";b")
			}
			k++
		})
	}
	// every Unicode whitespace character (and its neighbours, which are not whitespace) around a top-level ';'
	if c.Shard == 0 {
		for _, cp := range []rune{0x85, 0xA0, 0xA1, 0x1680, 0x1681, 0x180E, 0x1FFF, 0x2000, 0x2001, 0x2002, 0x2003, 0x2004, 0x2005, 0x2006, 0x2007, 0x2008, 0x2009, 0x200A, 0x200B, 0x2027, 0x2028, 0x2029, 0x202A, 0x202F, 0x2030, 0x205E, 0x205F, 0x2060, 0x2FFF, 0x3000, 0x3001, 0xFEFF} {
			x := string(cp)
			for _, f := range []string{"SELECT 1;%sSELECT 2", "a%s;%sb", "%s;", ";%s", "a%sb;c", "a;%s%s;b", "a ;%s --c\n%s b", "'%s;';%sx", "a/*%s;*/%s;b%s"} {
				one(strings.ReplaceAll(f, "%s", x))
			}
		}
	}
	for _, s := range []string{"", ";", ";;", " ; ", "a", "a;", ";a", "a;b", "a;;b", "/*c*/", ";/*c*/", "/*c*/;", "a;/*c*/b", "a; --c\nb", "a;--c", "'a;b'", "`;`", "\"\"\";\n;\"\"\";", "r';';", "a/*;*/b", "a--;\nb", "a#;\n;b"} {
		one(s)
	}
}

// ---------------------------------------------------------------------------
// C11: statement lists compose

// positions collects every token.Pos value reachable from v in reflective order.
func positions(v reflect.Value, out *[]token.Pos) {
	if !v.IsValid() {
		return
	}
	if v.Type() == reflect.TypeOf(token.Pos(0)) {
		*out = append(*out, token.Pos(v.Int()))
		return
	}
	switch v.Kind() {
	case reflect.Ptr, reflect.Interface:
		if !v.IsNil() {
			positions(v.Elem(), out)
		}
	case reflect.Struct:
		for i := 0; i < v.NumField(); i++ {
			if v.Type().Field(i).IsExported() {
				positions(v.Field(i), out)
			}
		}
	case reflect.Slice:
		if v.Type().Elem().Kind() == reflect.Uint8 {
			return
		}
		for i := 0; i < v.Len(); i++ {
			positions(v.Index(i), out)
		}
	}
}

func CheckC11(c *Ctx, entry, input string) {
	// precondition: the input lexes without error
	lr := Lex(input)
	if lr.Panic != nil || lr.Err != nil {
		c.Count("skipped_lexical_error", 1)
		return
	}
	c.Journal(entry, input)
	pl := Parse(entry, input)
	c.Eval()
	if pl.Panic != nil {
		c.Count("panics_left_to_C03", 1)
		return
	}
	var pieces []*memefish.RawStatement
	var serr error
	if pv, _ := callSUT(func() { pieces, serr = memefish.SplitRawStatements(FilePath, input) }); pv != nil || serr != nil {
		c.Count("split_failed_left_to_C12", 1)
		return
	}
	single := SingleOf(entry)
	type one struct {
		p   *Parsed
		off int
		txt string
	}
	var singles []one
	allOK := true
	for _, pc := range pieces {
		if pc == nil {
			return
		}
		// non-empty piece = contains at least one token
		pl := Lex(pc.Statement)
		if pl.Panic != nil || pl.Err != nil {
			c.Count("piece_does_not_lex", 1)
			return
		}
		if len(pl.Tokens) <= 1 {
			c.Count("empty_pieces", 1)
			continue
		}
		c.Journal(single, pc.Statement)
		sp := Parse(single, pc.Statement)
		if sp.Panic != nil {
			return
		}
		if sp.Err != nil {
			allOK = false
		}
		singles = append(singles, one{sp, int(pc.Pos), pc.Statement})
	}
	c.Count("lists", 1)
	c.Count("statements", int64(len(singles)))
	if (pl.Err == nil) != allOK {
		if pl.Err == nil {
			bad := ""
			for _, s := range singles {
				if s.p.Err != nil {
					bad = fmt.Sprintf("%q: %v", s.txt, s.p.Err)
					break
				}
			}
			c.Violate("c11:list-accepts-what-single-rejects", entry, input, "the list parses without error but a piece is rejected on its own: "+bad)
		} else {
			c.Violate("c11:list-rejects-what-singles-accept", entry, input, fmt.Sprintf("every piece is accepted on its own but the list fails: %v", pl.Err))
		}
		return
	}
	if pl.Err != nil {
		c.Count("lists_with_error", 1)
		return
	}
	c.Count("lists_clean", 1)
	if len(pl.Roots) != len(singles) {
		c.Violate("c11:count", entry, input, fmt.Sprintf("the list has %d statements, %d non-empty pieces", len(pl.Roots), len(singles)))
		return
	}
	for i := range singles {
		a, b := pl.Roots[i], singles[i].p.Root()
		if d := astx.Equiv(a, b, false); len(d) > 0 {
			c.Violate("c11:astdiff:"+d[0].Sig(), entry, input, fmt.Sprintf("statement %d differs from the stand-alone parse of %q: %s", i, singles[i].txt, d[0]))
			return
		}
		var pa, pb []token.Pos
		positions(reflect.ValueOf(a), &pa)
		positions(reflect.ValueOf(b), &pb)
		if len(pa) != len(pb) {
			continue
		}
		for k := range pa {
			if pa[k].Invalid() {
				continue
			}
			if int(pa[k]) != int(pb[k])+singles[i].off {
				c.Violate("c11:position-shift", entry, input, fmt.Sprintf("statement %d: position #%d is %d in the list, %d stand-alone + offset %d", i, k, pa[k], pb[k], singles[i].off))
				return
			}
		}
		c.Count("positions_compared", int64(len(pa)))
	}
	if len(singles) >= 2 {
		c.Distinct(entry + "\x00" + input)
	}
}

func RunC11(c *Ctx) {
	n := 0
	listWorkload(c, c.Pick(150_000, 2_000_000), true, func(entry, input string) {
		CheckC11(c, entry, input)
		n++
		if n%10000 == 1 {
			c.Sample(entry, input, "")
		}
	})
	idx := 0
	for _, s := range []string{"SELECT 1,; SELECT 2", "SELECT 1,\n;SELECT 2,\n;", ";;SELECT 1;;", "SELECT 1; /*c*/ SELECT 2", "SELECT 1 -- c\n; SELECT 2", "SELECT ';'; SELECT 2", ";", "", "SELECT 1;", " ; SELECT 1 ; ", "SELECT a, b, FROM t; SELECT 1", "SELECT 1, FROM t;"} {
		if c.Mine(idx) {
			CheckC11(c, "statements", s)
		}
		idx++
	}
	_ = rand.IntN
	c11LongLists(c, idx)
	c11SemicolonEverywhere(c, 0)
	c11Pairs(c)
}
