package mon

import (
	"fmt"
	"reflect"
	"strings"

	"github.com/cloudspannerecosystem/memefish/ast"

	"verif/internal/astx"
	"verif/internal/gen"
	"verif/internal/reflex"
)

// ---------------------------------------------------------------------------
// C02: unparse is lossless

// trimSemis removes leading/trailing/duplicate ';' tokens (empty statements of list entries).
func trimSemis(ts []gen.NTok) []gen.NTok {
	var out []gen.NTok
	for _, t := range ts {
		if t.K == "P" && t.V == ";" {
			if len(out) == 0 || (out[len(out)-1].K == "P" && out[len(out)-1].V == ";") {
				continue
			}
		}
		out = append(out, t)
	}
	for len(out) > 0 && out[len(out)-1].K == "P" && out[len(out)-1].V == ";" {
		out = out[:len(out)-1]
	}
	return out
}

// CheckC02 compares the significant-token sequence of the input with that of SQL().
func CheckC02(c *Ctx, entry, input string) {
	want, st, _ := gen.Normalize(input)
	if st != reflex.Accept {
		c.Count("skipped_input_not_judged_by_reference_lexer", 1)
		return
	}
	c.Journal(entry, input)
	p := Parse(entry, input)
	c.Eval()
	if p.Panic != nil || p.Err != nil {
		c.Count("not_accepted", 1)
		return
	}
	if len(p.Roots) == 0 {
		return
	}
	c.Count("accepted", 1)
	s1, pv := joinSQL(p.Roots)
	if pv != nil {
		c.Count("sql_panics_left_to_C04", 1)
		return
	}
	got, st2, why := gen.Normalize(s1)
	if st2 == reflex.Unspecified {
		c.Count("skipped_sql_not_judged_by_reference_lexer", 1)
		return
	}
	if st2 == reflex.Reject {
		c.Violate("c02:sql-does-not-lex", entry, input, fmt.Sprintf("SQL() = %q has a lexical error: %s", clip(s1, 300), why))
		return
	}
	want, got = trimSemis(want), trimSemis(got)
	c.Count("tokens_compared", int64(len(want)))
	sig, desc := gen.DiffToks(want, got)
	if sig != "" {
		c.Violate("c02:"+sig, entry, input, desc+fmt.Sprintf("; SQL() = %q", clip(s1, 400)))
	}
	if len(want) >= 5 {
		c.Distinct(skeletonN(want))
	}
}

func skeletonN(ts []gen.NTok) string {
	var sb strings.Builder
	for _, t := range ts {
		switch t.K {
		case "KW", "P":
			sb.WriteString(t.V)
		case "ID":
			if !t.Quoted && gen.PseudoKeywords[strings.ToUpper(t.V)] {
				sb.WriteString(strings.ToUpper(t.V))
			} else {
				sb.WriteString("id")
			}
		default:
			sb.WriteString("lit")
		}
		sb.WriteByte(' ')
	}
	return sb.String()
}

func RunC02(c *Ctx) {
	n := 0
	gSentences(c, c.Pick(120_000, 2_000_000), func(gs gSentence) {
		CheckC02(c, gs.S.Entry, gs.Text)
		n++
		if n%4000 == 1 {
			c.Sample(gs.S.Entry, gs.Text, fmt.Sprintf("grammar G, systematic=%v", gs.Systematic))
		}
	})
	// supplementary: corpus and accepted mutants (expected tokens from the reference lexer, still independent of the parser)
	corpusWorkload(c, false, func(entry string, cc gen.CorpusCase) {
		CheckC02(c, entry, cc.Text)
		if le := ListOf(entry); le != "" {
			CheckC02(c, le, cc.Text+";\n"+cc.Text)
		}
	})
	idx := 0
	for _, s := range typeSeeds {
		if c.Mine(idx) {
			CheckC02(c, "type", s)
		}
		idx++
	}
	errorWorkload(c, c.Pick(150_000, 3_000_000), func(entry, input string) {
		if entry == "lex" || entry == "split" {
			return
		}
		CheckC02(c, entry, input)
	})
	nearMissWorkload(c, func(entry, input string) { CheckC02(c, entry, input) })
	for i, cc := range c.Corpus() {
		if cc.Bad || !c.Mine(i) {
			continue
		}
		gen.SystematicEdits(cc.Text, func(m string) { CheckC02(c, cc.Entries()[0], m) })
	}
	operandMatrix(c, func(entry, input string) { CheckC02(c, entry, input) })
	valueSlotMatrix(c, func(entry, input string) { CheckC02(c, entry, input) })
	foldAlikeWorkload(c, func(entry, input string) { CheckC02(c, entry, input) })
	sameNameWorkload(c, func(entry, input string) { CheckC02(c, entry, input) })
	for i, sf := range qualifiedSpecialForms() {
		if c.Mine(i) {
			CheckC02(c, "expr", sf)
			CheckC02(c, "statement", "SELECT "+sf+" FROM t")
		}
	}
}

// ---------------------------------------------------------------------------
// C08: the documented grammar is accepted; entry points agree

func entryFamily(e string) string {
	switch e {
	case "expr", "type":
		return e
	}
	return "statement"
}

// CheckC08 checks one sentence of G: accepted by its entry point and (for statement kinds) by ParseStatement with equal trees.
func CheckC08(c *Ctx, entry, input string) bool {
	c.Journal(entry, input)
	p := Parse(entry, input)
	c.Eval()
	c.Count("sentences", 1)
	if p.Panic != nil {
		c.Count("panics_left_to_C03", 1)
		return false
	}
	if p.Err != nil {
		c.ViolateEach("c08:rejected:"+entry, entry, input, fmt.Sprintf("a sentence of the documented grammar is rejected by %s: %v", entry, p.Err))
		return false
	}
	c.Count("accepted", 1)
	if entry == "expr" || entry == "type" {
		return true
	}
	if entry != "statement" {
		c.Journal("statement", input)
		ps := Parse("statement", input)
		if ps.Panic != nil {
			return false
		}
		if ps.Err != nil {
			c.ViolateEach("c08:rejected:statement", "statement", input, fmt.Sprintf("accepted by %s but rejected by ParseStatement: %v", entry, ps.Err))
			return false
		}
		a, b := p.Root(), ps.Root()
		if !reflect.DeepEqual(a, b) {
			d := astx.Equiv(a, b, true)
			desc := "trees differ"
			sig := "unknown"
			if len(d) > 0 {
				desc, sig = d[0].String(), d[0].Sig()
			}
			c.Violate("c08:entry-points-disagree:"+sig, entry, input, fmt.Sprintf("%s and ParseStatement return different trees (positions included): %s", entry, desc))
			return false
		}
		c.Count("entry_pairs_compared", 1)
	} else {
		// a statement sentence also goes through its specific entry point
		spec := specificEntryOf(p)
		if spec != "" {
			c.Journal(spec, input)
			p2 := Parse(spec, input)
			if p2.Panic == nil {
				if p2.Err != nil {
					c.ViolateEach("c08:rejected:"+spec, spec, input, fmt.Sprintf("accepted by ParseStatement but rejected by %s: %v", spec, p2.Err))
					return false
				}
				if !reflect.DeepEqual(p.Root(), p2.Root()) {
					d := astx.Equiv(p.Root(), p2.Root(), true)
					sig := "unknown"
					if len(d) > 0 {
						sig = d[0].Sig()
					}
					c.Violate("c08:entry-points-disagree:"+sig, spec, input, fmt.Sprintf("ParseStatement and %s return different trees", spec))
					return false
				}
				c.Count("entry_pairs_compared", 1)
			}
		}
	}
	return true
}

func errClassOf(err error) string {
	s := err.Error()
	// drop "syntax error: file:line:col: "
	if i := strings.Index(s, ": "); i >= 0 {
		s = s[i+2:]
	}
	if i := strings.Index(s, ": "); i >= 0 {
		s = s[i+2:]
	}
	return firstWords(s, 4)
}

// specificEntryOf returns the specific entry point for the statement kind of an accepted ParseStatement result.
func specificEntryOf(p *Parsed) string {
	r := p.Root()
	if r == nil {
		return ""
	}
	switch r.(type) {
	case ast.DDL:
		return "ddl"
	case ast.DML:
		return "dml"
	case *ast.QueryStatement:
		return "query"
	}
	return ""
}

// CheckC08List: a ';'-joined list of k accepted sentences gives k statements, each equal (modulo positions) to its single parse.
func CheckC08List(c *Ctx, listEntry string, texts []string, trailing bool) {
	// always a newline before the separator (a sentence may end in a line comment)
	joined := strings.Join(texts, "\n;")
	if trailing {
		joined += "\n;"
	}
	single := SingleOf(listEntry)
	c.Journal(listEntry, joined)
	pl := Parse(listEntry, joined)
	c.Eval()
	if pl.Panic != nil {
		return
	}
	if pl.Err != nil {
		c.Violate("c08:list-rejected:"+listEntry, listEntry, joined, fmt.Sprintf("a list of %d accepted sentences is rejected: %v", len(texts), pl.Err))
		return
	}
	if len(pl.Roots) != len(texts) {
		c.Violate("c08:list-count:"+listEntry, listEntry, joined, fmt.Sprintf("%d sentences give %d statements", len(texts), len(pl.Roots)))
		return
	}
	for i, t := range texts {
		ps := Parse(single, t)
		if ps.Panic != nil || ps.Err != nil {
			return
		}
		if d := astx.Equiv(pl.Roots[i], ps.Root(), false); len(d) > 0 {
			c.Violate("c08:list-astdiff:"+d[0].Sig(), listEntry, joined, fmt.Sprintf("statement %d differs from its single parse: %s", i, d[0]))
			return
		}
	}
	c.Count("lists_checked", 1)
}

func RunC08(c *Ctx) {
	n := 0
	var pool = map[string][]string{} // accepted sentence texts per list entry
	gSentences(c, c.Pick(120_000, 2_000_000), func(gs gSentence) {
		ok := CheckC08(c, gs.S.Entry, gs.Text)
		c.Distinct(skeletonToks(gs.S))
		if ok {
			le := ""
			switch gs.S.Entry {
			case "query", "statement":
				le = "statements"
			case "ddl":
				le = "ddls"
			case "dml":
				le = "dmls"
			}
			if le != "" && len(pool[le]) < 4000 {
				pool[le] = append(pool[le], gs.Text)
			}
		}
		n++
		if n%3000 == 1 {
			c.Sample(gs.S.Entry, gs.Text, fmt.Sprintf("systematic=%v", gs.Systematic))
		}
	})
	// lists
	r := gen.NewRand(c.Seed, 800+uint64(c.Shard))
	for _, le := range []string{"statements", "ddls", "dmls"} {
		ts := pool[le]
		if len(ts) == 0 {
			continue
		}
		// ddl and dml sentences are also statements
		for i := 0; i < c.Pick(1500, 30_000)/max(c.NShards, 1); i++ {
			k := []int{0, 1, 2, 2, 3, 5}[r.IntN(6)]
			var sel []string
			for j := 0; j < k; j++ {
				sel = append(sel, ts[r.IntN(len(ts))])
			}
			CheckC08List(c, le, sel, r.IntN(2) == 0)
			if le != "statements" && r.IntN(3) == 0 {
				CheckC08List(c, "statements", sel, r.IntN(2) == 0)
			}
		}
	}
	// lists have no documented size limit: a sentence that is accepted with one of its lists widened by 13 elements is
	// accepted with the same list widened by 900 (the list sits wherever the grammar put it: inside double
	// parentheses, type arguments, hints ...)
	{
		type host struct{ entry, txt string }
		var hosts []host
		set, _, _ := gen.SystematicSet()
		rr := gen.NewRand(1, 4100)
		for _, s := range set {
			txt := gen.Render(rr, s, gen.RenderOpts{})
			if len(txt) <= 2000 && gen.RelexGuard(txt, s) {
				hosts = append(hosts, host{s.Entry, txt})
			}
		}
		for _, cc := range c.Corpus() {
			if !cc.Bad && len(cc.Text) <= 2000 {
				hosts = append(hosts, host{cc.Entries()[0], cc.Text})
			}
		}
		for _, h := range c08WideHosts {
			hosts = append(hosts, host{h[0], h[1]})
		}
		for i, h := range hosts {
			if !c.Mine(i) {
				continue
			}
			var small, wide []string
			gen.WidenLists(h.txt, 13, func(m string) { small = append(small, m) })
			gen.WidenLists(h.txt, 900, func(m string) { wide = append(wide, m) })
			for k := range small {
				if k >= len(wide) {
					break
				}
				c.Journal(h.entry, wide[k])
				ps := Parse(h.entry, small[k])
				if ps.Panic != nil || ps.Err != nil {
					continue
				}
				pw := Parse(h.entry, wide[k])
				c.Eval()
				c.Count("widened_sentences", 1)
				if pw.Panic == nil && pw.Err != nil {
					c.Violate("c08:rejected-when-wide:"+h.entry, h.entry, wide[k], fmt.Sprintf("accepted with the list widened by 13 elements (%q), rejected with the same list widened by 900: %v", small[k], firstLine(pw.Err.Error())))
				}
			}
		}
	}
	// every expression form in every slot where the grammar allows any expression
	valueSlotMatrix(c, func(entry, input string) { CheckC08(c, entry, input) })
	// every query form as parenthesised leading operand of every larger query form in every query slot
	querySlotMatrix(c, func(entry, input string) { CheckC08(c, entry, input) })
	// identifiers that spell a pseudo-keyword of the same sentence (always back-quoted) are ordinary identifiers
	pkwNamedWorkload(c, func(entry, input string) { CheckC08(c, entry, input) })
	// keyword-like identifiers in lower / upper case are covered by render policies 0 (upper) and 1 (lower)
	// scope probes (fixed, hand-written): documented forms that are restricted out of G, see internal/gen/SCOPE.md
	for i, pr := range ScopeProbes {
		if c.Mine(i) {
			CheckC08(c, pr.Entry, pr.Text)
		}
	}
}

func skeletonToks(s gen.Sentence) string {
	var sb strings.Builder
	sb.WriteString(s.Entry)
	for _, t := range s.Toks {
		switch t.Role {
		case gen.KW, gen.PKW, gen.PUNCT:
			sb.WriteString(t.Text)
		case gen.ID:
			sb.WriteString("id")
		default:
			sb.WriteString("lit")
		}
		sb.WriteByte(' ')
	}
	return sb.String()
}

// ScopeProbe is a fixed documented sentence outside the random grammar (restriction recorded in SCOPE.md).
type ScopeProbe struct{ Entry, Text string }

// ScopeProbes are checked by C08 on every run; the ones memefish rejects are listed in KNOWN_FINDINGS.txt by exact input.
var ScopeProbes = []ScopeProbe{
	{"ddl", "CREATE SEARCH INDEX i ON t (a) PARTITION BY b, INTERLEAVE IN p"},
	{"ddl", "CREATE SEARCH INDEX i ON t (a) ORDER BY b, INTERLEAVE IN p"},
	{"query", "SELECT * FROM (SELECT 1) AS a"},
	{"type", "ARRAY<STRUCT< >>"}, {"type", "STRUCT<a INT64, b STRUCT< >>"}, {"type", "ARRAY<STRUCT</* c */>>"}, {"expr", "CAST(x AS ARRAY<STRUCT< >>)"}, {"type", "ARRAY<ARRAY<INT64 >>"},
	{"query", "SELECT * FROM ((SELECT 1))"},
	{"query", "SELECT ((SELECT 1) |> WHERE TRUE)"}, {"expr", "a IN ((SELECT 1) |> WHERE TRUE)"},
	{"dml", "DELETE FROM t WHERE TRUE THEN RETURN WITH(a AS 1, a)"},
	{"expr", "a[`offset`]"},
	{"ddl", "CREATE TABLE t (a ARRAY<`string`>) PRIMARY KEY (a)"},
}

// ---------------------------------------------------------------------------
// C16: trivia and keyword case never change the AST

// CheckC16Pair: both texts are accepted and parse to the same tree modulo positions.
func CheckC16Pair(c *Ctx, entry, orig, respelled string) {
	c.Journal(entry, orig)
	p1 := Parse(entry, orig)
	if p1.Panic != nil || p1.Err != nil {
		c.Count("original_not_accepted", 1)
		return
	}
	c.Journal(entry, respelled)
	p2 := Parse(entry, respelled)
	c.Eval()
	if p2.Panic != nil {
		c.Count("panics_left_to_C03", 1)
		return
	}
	pair := orig + "\x00" + respelled
	if p2.Err != nil {
		c.Violate("c16:respelling-rejected:"+errClassOf(p2.Err), entry, pair, fmt.Sprintf("accepted: %q; re-spelled (trivia / keyword case only) and rejected: %q: %v", clip(orig, 300), clip(respelled, 300), p2.Err))
		return
	}
	if len(p1.Roots) != len(p2.Roots) {
		c.Violate("c16:list-length", entry, pair, "different number of statements after re-spelling")
		return
	}
	for i := range p1.Roots {
		for _, d := range astx.Equiv(p1.Roots[i], p2.Roots[i], false) {
			c.Violate("c16:astdiff:"+d.Sig(), entry, pair, fmt.Sprintf("re-spelling trivia / keyword case changes the tree: %s; original %q, re-spelled %q", d, clip(orig, 300), clip(respelled, 300)))
		}
	}
	c.Count("respellings_compared", 1)
}

// ReplayC16 splits the stored pair.
func ReplayC16(c *Ctx, entry, input string) {
	parts := strings.SplitN(input, "\x00", 2)
	if len(parts) == 2 {
		CheckC16Pair(c, entry, parts[0], parts[1])
	}
}

func RunC16(c *Ctx) {
	r := gen.NewRand(c.Seed, 1600+uint64(c.Shard))
	n := 0
	k := c.Pick(3, 6)
	// sentences of G: roles are known, so KW and PKW change case, ID / literals keep their spelling
	gSentences(c, c.Pick(45_000, 800_000), func(gs gSentence) {
		for j := 0; j < k; j++ {
			o := gen.RenderOpts{Trivia: 2, Case: 1 + r.IntN(3), Quote: gs.Opts.Quote}
			if j == 0 {
				o = gen.RenderOpts{Trivia: 1, Case: 1, Quote: gs.Opts.Quote}
			}
			// identifiers and literals must keep their exact spelling: re-render with a private generator seeded identically
			// is not possible for random quoting, so only trivia and case differ when Quote==0
			if gs.Opts.Quote != 0 {
				o.Quote = 0
			}
			base := gs.Text
			if gs.Opts.Quote != 0 {
				// canonical spelling as the base so that both texts spell identifiers and literals identically
				base = gen.Render(r, gs.S, gen.RenderOpts{Trivia: 0, Case: 0, Quote: 0})
				if !gen.RelexGuard(base, gs.S) {
					return
				}
			}
			txt := gen.Render(r, gs.S, o)
			if len(txt) > 16<<10 || !gen.RelexGuard(txt, gs.S) {
				c.Count("g_relex_guard_rejected", 1)
				continue
			}
			CheckC16Pair(c, gs.S.Entry, base, txt)
		}
		c.Distinct(skeletonToks(gs.S))
		n++
		if n%2000 == 1 {
			c.Sample(gs.S.Entry, gs.Text, "grammar G sentence (re-spelled k times)")
		}
	})
	// hand-written pairs around the tokens the lexer fuses (<> and >>)
	if c.Shard == 0 {
		for _, pr := range [][3]string{
			{"type", "ARRAY<STRUCT<>>", "ARRAY<STRUCT< >>"}, {"type", "ARRAY<STRUCT<>>", "ARRAY< STRUCT < > >"}, {"type", "ARRAY<STRUCT<>>", "ARRAY<STRUCT</**/>>"},
			{"type", "STRUCT<a INT64, b STRUCT<>>", "STRUCT<a INT64, b STRUCT< >>"}, {"type", "ARRAY<ARRAY<INT64>>", "ARRAY<ARRAY<INT64 >>"}, {"type", "ARRAY<ARRAY<INT64>>", "ARRAY<ARRAY<INT64> >"},
			{"expr", "CAST(x AS ARRAY<STRUCT<>>)", "CAST(x AS ARRAY<STRUCT<\n>>)"}, {"expr", "a<>b", "a <> b"}, {"expr", "a>>b", "a >> b"}, {"expr", "STRUCT<>()", "STRUCT< >()"}, {"expr", "ARRAY<STRUCT<>>[]", "ARRAY<STRUCT< >>[]"},
		} {
			CheckC16Pair(c, pr[0], pr[1], pr[2])
		}
	}
	// corpus: roles unknown, only reserved keywords and trivia are re-spelled
	corpusWorkload(c, false, func(entry string, cc gen.CorpusCase) {
		for j := 0; j < k; j++ {
			o := gen.RenderOpts{Trivia: j % 3, Case: 1 + r.IntN(3)}
			txt := gen.Respell(r, cc.Text, o)
			if txt == "" {
				c.Count("respell_guard_rejected", 1)
				continue
			}
			CheckC16Pair(c, entry, cc.Text, txt)
		}
		c.Distinct(entry + "\x00" + cc.Text)
	})
	// whatever else the parser accepts: near misses of the systematic set and the corpus (token edits, moves, duplicated
	// runs, inserted phrases, widened lists), the scope probes, qualified special forms, the wide hosts. A form that is
	// accepted only in one spelling shows here the moment it becomes accepted.
	seed := func(entry, input string) {
		if len(input) > 3000 {
			return
		}
		p := Parse(entry, input)
		if p.Panic != nil || p.Err != nil {
			return
		}
		c.Count("accepted_near_misses_respelled", 1)
		for j := 0; j < 2; j++ {
			txt := gen.Respell(r, input, gen.RenderOpts{Trivia: 1 + j, Case: 1 + r.IntN(3)})
			if txt == "" {
				c.Count("respell_guard_rejected", 1)
				continue
			}
			CheckC16Pair(c, entry, input, txt)
		}
	}
	nearMissWorkload(c, seed)
	if c.Shard == 0 {
		for _, pr := range ScopeProbes {
			seed(pr.Entry, pr.Text)
		}
		for _, f := range qualifiedSpecialForms() {
			seed("expr", f)
		}
		for _, h := range c08WideHosts {
			seed(h[0], h[1])
		}
		for _, sh := range c11Shapes {
			seed("statement", sh[1])
		}
	}
}

// c08WideHosts: lists inside parenthesised query operands and other look-ahead-heavy places (grammar G keeps out of
// double parentheses in sub-query position, see SCOPE.md; these are forms the parser accepts today).
var c08WideHosts = [][2]string{
	{"query", "SELECT ((SELECT a FROM t WHERE b IN (1, 2)) UNION ALL (SELECT 1))"},
	{"query", "SELECT * FROM ((SELECT a FROM t WHERE b IN (1, 2)) UNION ALL (SELECT 1))"},
	{"query", "SELECT a IN ((SELECT f(1, 2) FROM t) UNION ALL (SELECT 1)) FROM t"},
	{"query", "((SELECT [1, 2] FROM t) LIMIT 1)"},
	{"query", "((SELECT (1, 2) FROM t) ORDER BY 1) UNION ALL (SELECT (3, 4))"},
	{"expr", "((SELECT STRUCT(1, 2)) UNION ALL (SELECT STRUCT(3, 4)))"},
	{"expr", "ARRAY((SELECT a FROM t WHERE a IN (1, 2)) UNION ALL (SELECT b FROM u))"},
	{"expr", "EXISTS((SELECT a FROM t WHERE a IN (1, 2)) INTERSECT DISTINCT (SELECT 1))"},
	{"expr", "(((SELECT f(1, 2))))"},
	{"expr", "((a IN (1, 2)))"},
	{"expr", "(((1, 2)), 3)"},
	{"statement", "INSERT INTO t (a) ((SELECT f(1, 2)) UNION ALL (SELECT 1))"},
	{"statement", "CREATE VIEW v SQL SECURITY INVOKER AS ((SELECT a FROM t WHERE a IN (1, 2)) UNION ALL (SELECT 1))"},
	{"query", "WITH c AS ((SELECT a FROM t WHERE a IN (1, 2)) UNION ALL (SELECT 1)) SELECT * FROM c"},
	{"query", "SELECT * FROM t JOIN ((SELECT a FROM u WHERE a IN (1, 2)) UNION ALL (SELECT 1)) AS s USING (a)"},
	{"type", "ARRAY<STRUCT<a STRUCT<b INT64, c STRING>>>"},
}
