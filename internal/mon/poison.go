package mon

import (
	"fmt"
	"strings"

	memefish "github.com/cloudspannerecosystem/memefish"
)

// poisonInputs end in a state-sensitive place (after a dot, inside a literal / comment / escape, after '@');
// stateProbes are inputs whose first token is lexed differently if lexer state leaks from a previous call.
var poisonInputs = []string{"SELECT t.'oops", "SELECT (a)./* never closed", "a.", "a. ", "f().", "x[0].", "@p.", "a.`", "SELECT '", "SELECT \"", "SELECT '''", "/*", "SELECT `", "SELECT 'a\\", "a.1a", "1a", "@", "a.b.\x00", "SELECT r'", "b\"\\u", "a . 'x", ").", "].", "1 x", "1 @p", "f(1) )", "a[0] ]", "INT64 ]", "SELECT 1 x y", "DROP TABLE t x", "a b", "(a", "[a", "a."}
var stateProbes = []string{"1st; SELECT 2", "0x; SELECT 2", "r'\\d+;'; SELECT 2", "select; 1", "1; 2", "5.x;", "from;from", "b'a';", "1e5;", ".5;", "`a`;b", "x", "", ";", "1", "select", ".5", ".5 + 1", ".x", ".5e3 ", "5", "x.y", "from"}

// c12Sequences: a failing SplitRawStatements call must not influence the next call.
func c12Sequences(c *Ctx) {
	for _, p := range poisonInputs {
		for _, q := range stateProbes {
			callSUT(func() { memefish.SplitRawStatements(FilePath, p) })
			CheckC12(c, q)
			c.Count("poison_probe_sequences", 1)
		}
	}
}

// c18Sequences: every poison input immediately followed by every probe, through each entry family;
// the probe's result must equal its reference digest.
func c18Sequences(c *Ctx, cases []c18Case, ref []uint64) {
	idxOf := map[c18Case]int{}
	for i, cs := range cases {
		if _, ok := idxOf[cs]; !ok {
			idxOf[cs] = i
		}
	}
	for _, e := range []string{"split", "statements", "expr"} {
		for _, p := range poisonInputs {
			for _, q := range stateProbes {
				c.Journal(e, q)
				digestSeq(e, p)
				d, _ := digestSeq(e, q)
				if i, ok := idxOf[c18Case{e, q}]; ok && d != ref[i] {
					c.Violate("c18:order-dependent", e, q, fmt.Sprintf("the result differs when the call follows a failing call on %q", p))
				}
				c.Count("poison_probe_sequences", 1)
			}
		}
	}
}

// qualifiedSpecialForms: the special call-like forms of the grammar written with a path qualifier, in several
// spellings. The unchanged parser rejects most of them; they are judged only when accepted (near misses for
// special-casing by function name).
func qualifiedSpecialForms() []string {
	forms := []string{"COUNT(*)", "count(*)", "Count ( * )", "CAST(x AS INT64)", "SAFE_CAST(x AS STRING)", "EXTRACT(DAY FROM d)", "IF(a, b, c)", "ARRAY(SELECT 1)", "EXISTS(SELECT 1)",
		"REPLACE_FIELDS(a, 1 AS b)", "WITH(a AS 1, a)", "DATE '2020-01-01'", "TIMESTAMP 'x'", "NUMERIC '1'", "JSON '{}'", "OFFSET(1)", "a[OFFSET(1)]", "NEW T(1)", "STRUCT(1)", "UNNEST(a)", "INTERVAL 1 DAY", "CASE WHEN a THEN 1 END"}
	var out []string
	for _, f := range forms {
		for _, q := range []string{"", "SAFE.", "safe.", "pkg.util.", "`SAFE`.", "a.b.c.d.", "NET.", "x."} {
			out = append(out, q+f)
		}
		out = append(out, "f("+f+")", "("+f+")", f+".x", f+"[0]", "`"+f+"`")
		// the form's own name as first / middle component of a longer function path
		if i := strings.IndexAny(f, "( "); i > 0 && strings.Contains(f, "(") && isWord(f[:i]) {
			name, rest := f[:i], f[i:]
			for _, q := range []string{name + ".x", "x." + name + ".y", name + "." + name, strings.ToLower(name) + ".x", "`" + name + "`.x", name + ".`x`", name + ".x.y.z", "safe." + name + ".x"} {
				out = append(out, q+rest)
			}
		}
	}
	return out
}

func isWord(s string) bool {
	for i := 0; i < len(s); i++ {
		c := s[i]
		if !(c == '_' || c >= 'a' && c <= 'z' || c >= 'A' && c <= 'Z') {
			return false
		}
	}
	return s != ""
}
