package mon

import (
	"fmt"

	memefish "github.com/cloudspannerecosystem/memefish"
)

// poisonInputs end in a state-sensitive place (after a dot, inside a literal / comment / escape, after '@');
// stateProbes are inputs whose first token is lexed differently if lexer state leaks from a previous call.
var poisonInputs = []string{"SELECT t.'oops", "SELECT (a)./* never closed", "a.", "a. ", "f().", "x[0].", "@p.", "a.`", "SELECT '", "SELECT \"", "SELECT '''", "/*", "SELECT `", "SELECT 'a\\", "a.1a", "1a", "@", "a.b.\x00", "SELECT r'", "b\"\\u", "a . 'x", ").", "]."}
var stateProbes = []string{"1st; SELECT 2", "0x; SELECT 2", "r'\\d+;'; SELECT 2", "select; 1", "1; 2", "5.x;", "from;from", "b'a';", "1e5;", ".5;", "`a`;b", "x", "", ";", "1", "select"}

// c12Sequences: a failing SplitRawStatements call must not influence the next call.
func c12Sequences(c *Ctx) {
	for _, p := range poisonInputs {
		for _, q := range stateProbes {
			callSUT(func() { memefish.SplitRawStatements(FilePath, p) })
			CheckC12(c, q)
			c.Count("poison_probe_sequences", 1)
		}
	}
}

// c18Sequences: every poison input immediately followed by every probe, through each entry family;
// the probe's result must equal its reference digest.
func c18Sequences(c *Ctx, cases []c18Case, ref []uint64) {
	idxOf := map[c18Case]int{}
	for i, cs := range cases {
		if _, ok := idxOf[cs]; !ok {
			idxOf[cs] = i
		}
	}
	for _, e := range []string{"split", "statements", "expr"} {
		for _, p := range poisonInputs {
			for _, q := range stateProbes {
				c.Journal(e, q)
				digestOf(e, p)
				d, _ := digestOf(e, q)
				if i, ok := idxOf[c18Case{e, q}]; ok && d != ref[i] {
					c.Violate("c18:order-dependent", e, q, fmt.Sprintf("the result differs when the call follows a failing call on %q", p))
				}
				c.Count("poison_probe_sequences", 1)
			}
		}
	}
}
