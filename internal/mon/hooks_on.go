//go:build verif

package mon

import (
	memefish "github.com/cloudspannerecosystem/memefish"
)

const hooksEnabled = true

func setBudget(n int64) { memefish.VerifSetBudget(n) }
func steps() int64      { return memefish.VerifSteps() }
func isBudgetPanic(r any) bool {
	_, ok := r.(memefish.VerifStepBudgetExceeded)
	return ok
}
func nextTokenRecover(l *memefish.Lexer) { l.VerifNextTokenRecover() }
func tables() map[string][]string        { return memefish.VerifTables() }
