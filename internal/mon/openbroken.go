package mon

// openThenBroken: a statement that is still open (unclosed bracket, list, constructor, type argument, look-ahead in
// progress) followed by a separator and by a statement with a lexically malformed token. Look-ahead and recovery of
// the first statement run across the ';' into the lexical error of the second.
func openThenBroken(c *Ctx, idx *int, f func(entry, input string)) {
	openers := []string{"SELECT ((SELECT 1", "SELECT ((FROM t", "SELECT ((WITH x AS (SELECT 1) SELECT 2", "SELECT (SELECT 1", "SELECT a IN ((SELECT 1", "SELECT * FROM ((SELECT 1", "((SELECT 1", "SELECT (1 +", "SELECT [1,", "SELECT f(a,",
		"SELECT CASE WHEN a", "SELECT CAST(a AS ARRAY<", "SELECT {a: 1", "SELECT NEW T {a: ", "SELECT @{a=", "@{a=1", "INSERT INTO t (a) VALUES (1,", "CREATE TABLE t (a INT64,", "UPDATE t SET a = (", "DELETE FROM t WHERE (", "SELECT a.", "SELECT * FROM t TABLESAMPLE BERNOULLI ("}
	seps := []string{"; ", ";\n", " ; SELECT 1; "}
	bads := []string{"\"x", "'x", "`x", "/* c", "0x", "1e", "$", "\x00", "'''x", "b'\\400'"}
	heads := []string{"", "SELECT ", "x "}
	for _, o := range openers {
		for _, sp := range seps {
			for _, b := range bads {
				for _, h := range heads {
					if c.Mine(*idx) {
						in := o + sp + h + b
						for _, e := range []string{"statements", "ddls", "dmls", "statement", "query"} {
							f(e, in)
						}
						c.Count("open_then_broken_inputs", 1)
					}
					*idx++
				}
			}
		}
	}
}
