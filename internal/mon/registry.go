package mon

import (
	"strconv"
	"strings"
)

// Prop describes one property's monitor.
type Prop struct {
	ID          string
	Run         func(c *Ctx)
	Replay      func(c *Ctx, entry, input string)
	Rule        string   // how cases are generated and what makes one distinct / non-trivial
	Assumptions []string // trusted base
	Floors      func(m *Merged) []string
	Race        bool // needs the -race build
}

// Merged is the driver-side merge of worker results.
type Merged struct {
	Evals      int64
	Distinct   int64
	Counters   map[string]int64
	Max        map[string]float64
	Sets       map[string][]string
	Samples    []Sample
	Violations []Violation
	Inconcl    []string
	Exhaustive map[string]bool
	Notes      []string
}

func (m *Merged) SetLen(name string) int { return len(m.Sets[name]) }

func (m *Merged) SetHas(name, e string) bool {
	for _, x := range m.Sets[name] {
		if x == e {
			return true
		}
	}
	return false
}

var Registry = map[string]*Prop{}

func register(p *Prop) { Registry[p.ID] = p }

func init() {
	register(&Prop{
		ID:          "C03",
		Run:         RunC03,
		Replay:      func(c *Ctx, entry, input string) { CheckC03(c, entry, input) },
		Rule:        "cases = (entry point, byte string): exhaustive strings over the 24-symbol alphabet through all 11 entry points (plus one more symbol for lexer/splitter), literal/escape/truncation matrix, number forms, adversarial nesting families (depth<=512, input<=16KiB), late multi-line error ranges, every reserved / pseudo keyword after an erroneous prefix and in front of each kind of lexically malformed token, token mutants / hostile splices / random bytes over all 256 byte values, sentences of grammar G; distinct_nontrivial = enumerated strings (distinct by construction) + distinct (entry,input) pairs of the random part; an error display matrix (20 erroneous inputs x token separator x last separator x end of input over blank, tab, LF, bare CR, CR LF, VT, FF, and the short !bad_ corpus files re-spaced) through every entry point",
		Assumptions: []string{"bounded time is decided on a logical clock: token fetches <= 10*(bytes+16)^2 (hook H1); loops that fetch no token are left to the wall-clock watchdog", "inputs are bounded to 16 KiB and nesting depth 512"},
		Floors: func(m *Merged) []string {
			var f []string
			if m.Counters["parse_errors"] == 0 || m.Counters["parse_ok"] == 0 || m.Counters["lex_errors"] == 0 || m.Counters["split_errors"] == 0 {
				f = append(f, "error and success paths of parser, lexer and splitter must all be observed")
			}
			return f
		},
	})
	register(&Prop{
		ID:          "C13",
		Run:         RunC13,
		Replay:      func(c *Ctx, entry, input string) { CheckC13(c, input) },
		Rule:        "cases = byte strings: exhaustive over the 24-symbol alphabet up to length 5 (quick) / 6 (thorough), literal matrix, number forms, keyword casings, comment forms, every byte and every code point between two tokens and as the first thing in the input, backslash runs x quote runs in every literal form, all \\u escapes, rendered sentences of grammar G, corpus files, random hostile bytes; distinct_nontrivial = accepted enumerated strings (distinct by construction) + distinct accepted strings of the other workloads; a token length sweep (17 token / comment / literal shapes x every body length 0..300, thorough 0..2100, x 4 fillers x 5 last bytes, the terminator occurring again later, and whitespace runs of every such length)",
		Assumptions: []string{"whitespace means unicode.IsSpace (the property only says 'whitespace')"},
		Floors: func(m *Merged) []string {
			if m.Counters["accepted"] == 0 || m.Counters["comments"] == 0 {
				return []string{"accepted inputs and comments must be observed"}
			}
			return nil
		},
	})
	register(&Prop{
		ID:          "C14",
		Run:         RunC14,
		Replay:      func(c *Ctx, entry, input string) { CheckC14(c, input) },
		Rule:        "same workloads as C13 plus every identifier-shaped word of up to 5 characters over [a-z0-9_] in lower and upper case (thorough: also every 6-letter word), which must be the reserved keyword it spells or an identifier; each input lexed by memefish and by the independent reference lexer (internal/reflex, DESIGN Appendix A); distinct_nontrivial = distinct (token-kind skeleton, literal values) classes among inputs accepted by both with >= 2 tokens",
		Assumptions: []string{"the reference lexer is the specification; where the documentation is silent it answers 'unspecified' and the case is not judged (counted in coverage.counters.unspecified)"},
		Floors: func(m *Merged) []string {
			if m.Counters["ref_accept"] == 0 || m.Counters["ref_reject"] == 0 {
				return []string{"both accepted and rejected inputs must be observed"}
			}
			return nil
		},
	})
	register(&Prop{
		ID:          "C15",
		Run:         RunC15,
		Replay:      func(c *Ctx, entry, input string) { CheckC15(c, input) },
		Rule:        "cases = strings s through QuoteSQLString/QuoteSQLBytes/QuoteSQLIdent: exhaustive over all 1- and 2-byte strings and all Unicode code points, reserved words, x+code point names, long values (plain runs of 35 lengths up to 70 001 bytes with one special unit at the start, after the run or at the end), random longer strings (valid and invalid UTF-8, quotes, backslashes, controls); distinct_nontrivial = exhaustive members (distinct by construction) + distinct random strings",
		Assumptions: []string{"'lexes as' is decided by memefish.Lexer and, where it has an opinion, by the reference lexer"},
		Floors: func(m *Merged) []string {
			if m.Counters["ident_quoted"] == 0 || m.Counters["ident_unquoted"] == 0 {
				return []string{"quoted and unquoted identifiers must both be observed"}
			}
			return nil
		},
	})
	register(&Prop{
		ID:          "C20",
		Run:         RunC20,
		Replay:      func(c *Ctx, entry, input string) { ReplayC20(c, entry, input) },
		Rule:        "cases = (text, pos, end): exhaustive texts of up to 6 (quick) / 8 (thorough) symbols over {a, LF, CR, é} x all pairs 0<=pos<=end<=len, random multi-line texts x sampled pairs, many-line texts, ranges across line-number digit boundaries, plus every *Error produced by token mutants / hostile bytes through all entry points, every pair also on one File object shared by all pairs of the text (forwards, backwards, jumping) which must agree with a fresh File per call; error inputs + Position.String() under 19 hostile file paths (%, :, newline, quotes, empty, long); distinct_nontrivial = enumerated texts + distinct random texts + distinct (entry, first message) classes",
		Assumptions: []string{"numbered excerpt lines are recognised as '<spaces><digits>|<text>'; only the line number and that the text ends with the buffer line are checked, not the layout"},
		Floors: func(m *Merged) []string {
			if m.Counters["errors_checked"] == 0 {
				return []string{"errors must be observed"}
			}
			return nil
		},
	})
}

// ReplayC20 replays a C20 case.
func ReplayC20(c *Ctx, entry, input string) {
	if rest, ok := strings.CutPrefix(entry, "path="); ok {
		q, err := strconv.QuotedPrefix(rest)
		if err != nil {
			return
		}
		path, _ := strconv.Unquote(q)
		old := FilePath
		FilePath = path
		defer func() { FilePath = old }()
		entry = strings.TrimPrefix(rest[len(q):], " ")
	}
	if entry == "position" {
		if len(input) <= 200 {
			CheckC20Text(c, input, allPairs(len(input)))
		}
		return
	}
	c20ErrorCase(c, entry, input)
}
