package mon

import (
	"fmt"
	"hash"
	"hash/fnv"
	"reflect"
	"sort"
	"strings"
	"sync"

	memefish "github.com/cloudspannerecosystem/memefish"
	"github.com/cloudspannerecosystem/memefish/ast"
	"github.com/cloudspannerecosystem/memefish/token"

	"verif/internal/astx"
	"verif/internal/gen"
	"verif/internal/reflex"
)

// ---------------------------------------------------------------------------
// C18: parsing is a pure function

type c18Case struct{ entry, input string }

// digestOf computes the observable result of one call: tree (with positions), SQL text, error list.
// It is safe to call from several goroutines (no budget, no shared state).
func digestOf(entry, input string) (uint64, string) { return digestWith(entry, input, false) }

// digestSeq is digestOf for the single-threaded phases: the step budget is armed, so a non-terminating parse
// ends with the budget panic instead of hanging the worker.
func digestSeq(entry, input string) (uint64, string) { return digestWith(entry, input, true) }

func digestWith(entry, input string, budget bool) (uint64, string) {
	h := fnv.New64a()
	if entry == "split" {
		var res []*memefish.RawStatement
		var err error
		pv, _ := callSUT(func() { res, err = memefish.SplitRawStatements(FilePath, input) })
		if pv != nil {
			fmt.Fprintf(h, "panic:%s", PanicClass(pv))
			return h.Sum64(), "panic"
		}
		for _, r := range res {
			if r != nil {
				fmt.Fprintf(h, "[%d,%d,%q]", r.Pos, r.End, r.Statement)
			}
		}
		if err != nil {
			fmt.Fprintf(h, "err:%s", err.Error())
		}
		return h.Sum64(), ""
	}
	p := parseWith(entry, input, budget)
	if p.Panic != nil {
		fmt.Fprintf(h, "panic:%s", PanicClass(p.Panic))
		return h.Sum64(), "panic"
	}
	hashParsed(h, p)
	return h.Sum64(), ""
}

// hashParsed digests everything observable of one returned result (trees, SQL(), positions, traversal, errors).
func hashParsed(h hash.Hash64, p *Parsed) {
	for _, r := range p.Roots {
		if astx.IsNilNode(r) {
			h.Write([]byte("nil"))
			continue
		}
		fmt.Fprintf(h, "tree:%x;", astx.Hash(r))
		if s, pv := SQLOf(r); pv == nil {
			fmt.Fprintf(h, "sql:%q;", s)
		} else {
			fmt.Fprintf(h, "sqlpanic:%s;", PanicClass(pv))
		}
		// Pos/End/Walk on the goroutine's own result
		infos := astx.Nodes(r)
		for _, in := range infos {
			if in.TypedNil {
				continue
			}
			a, _ := PosOf(in.Node)
			b, _ := EndOf(in.Node)
			fmt.Fprintf(h, "%d,%d;", a, b)
		}
		n := 0
		callSUT(func() { ast.Inspect(r, func(ast.Node) bool { n++; return true }) })
		fmt.Fprintf(h, "walk:%d;", n)
	}
	if p.Err != nil {
		if me, ok := p.Err.(memefish.MultiError); ok {
			for _, e := range me {
				if e == nil {
					continue
				}
				fmt.Fprintf(h, "E:%q", e.Message)
				if e.Position != nil {
					fmt.Fprintf(h, "@%d,%d,%d,%d,%q", e.Position.Pos, e.Position.End, e.Position.Line, e.Position.Column, e.Position.Source)
				}
			}
			fmt.Fprintf(h, "full:%q", me.Error())
		} else {
			fmt.Fprintf(h, "err:%q", p.Err.Error())
		}
	}
}

// heldDigest digests a result that the caller already holds.
func heldDigest(p *Parsed) uint64 {
	h := fnv.New64a()
	hashParsed(h, p)
	return h.Sum64()
}

// checkHeld: a result, once returned, never changes: not when the same entry point parses the same text at shifted
// positions (same error sites, other line/column), nor after unrelated calls.
func checkHeld(c *Ctx, entry, input string, others []c18Case) {
	if entry == "split" {
		return
	}
	c.Journal(entry, input)
	p1 := Parse(entry, input)
	if p1.Panic != nil {
		return
	}
	d1 := heldDigest(p1)
	Parse(entry, "\n\n   "+input)
	Parse(entry, input+" ")
	for _, o := range others {
		if o.entry != "split" {
			Parse(o.entry, o.input)
		}
	}
	c.Eval()
	c.Count("held_results_rechecked", 1)
	if d2 := heldDigest(p1); d2 != d1 {
		c.Violate("c18:held-result-changed", entry, input, "a result returned earlier (tree, SQL(), positions or error list) reads differently after later calls on the same text at shifted positions")
	}
}

// c18ErrorReps: this shard's share of errsites.tsv (one short input per distinct (entry, error message shape) that the
// broad error workloads reach; written by cmd/harvest, workload data only).
func c18ErrorReps(c *Ctx) []c18Case {
	var reps []c18Case
	for i, s := range LoadErrSites() {
		if c.Mine(i) {
			reps = append(reps, c18Case{s.Entry, s.Input})
		}
	}
	return reps
}

// MsgShape is msgShape for tools.
func MsgShape(m string) string { return msgShape(m) }

func msgShape(m string) string {
	// "expected X, but: Y" names its site by X alone; "unexpected token: Y" by nothing more
	for _, cut := range []string{", but: ", " but: ", ", but ", "unexpected token"} {
		if i := strings.Index(m, cut); i >= 0 {
			if cut == "unexpected token" {
				m = m[:i+len(cut)]
			} else {
				m = m[:i]
			}
		}
	}
	var sb strings.Builder
	inq := byte(0)
	for i := 0; i < len(m); i++ {
		ch := m[i]
		switch {
		case inq != 0:
			if ch == inq {
				inq = 0
			}
		case ch == '"' || ch == '`' || ch == '\'':
			inq = ch
			sb.WriteByte('Q')
		case ch >= '0' && ch <= '9':
		default:
			sb.WriteByte(ch)
		}
	}
	return sb.String()
}

func tableDigest() uint64 {
	h := fnv.New64a()
	for _, k := range token.Keywords {
		h.Write([]byte(k))
		h.Write([]byte{0})
	}
	var ks []string
	for k := range token.KeywordsMap {
		ks = append(ks, string(k))
	}
	sort.Strings(ks)
	for _, k := range ks {
		h.Write([]byte(k))
		h.Write([]byte{1})
	}
	if hooksEnabled {
		t := tables()
		var names []string
		for n := range t {
			names = append(names, n)
		}
		sort.Strings(names)
		for _, n := range names {
			h.Write([]byte(n))
			for _, v := range t[n] {
				h.Write([]byte(v))
				h.Write([]byte{2})
			}
		}
	}
	return h.Sum64()
}

// c18Inputs is the same in every shard (fresh-process comparison) for a given seed.
func c18Inputs(c *Ctx, nMut int) []c18Case {
	var cases []c18Case
	for _, cc := range c.Corpus() {
		for _, e := range cc.Entries() {
			cases = append(cases, c18Case{e, cc.Text})
		}
		if cc.Dir != "expr" {
			cases = append(cases, c18Case{"statements", cc.Text + ";\n" + cc.Text})
			cases = append(cases, c18Case{"split", cc.Text + ";" + cc.Text})
		}
	}
	for _, s := range typeSeeds {
		cases = append(cases, c18Case{"type", s})
	}
	// collections in front of statements that do not take them: an error message (or a recovery path) that renders a
	// collection it has put into a map or set depends on iteration order, which only repetition can show; the corpus
	// uses single-key hints only
	for _, h := range []string{"@{a=1, b=2, c=3, d=4} ", "@{x=1, y=2} ", "@{b=1, a=2, b=3} "} {
		for _, cc := range c.Corpus() {
			if cc.Dir != "expr" && !cc.Bad && len(cc.Text) < 300 {
				cases = append(cases, c18Case{"statement", h + cc.Text})
				if cc.Dir == "ddl" {
					cases = append(cases, c18Case{"ddl", h + cc.Text})
				}
			}
		}
		for _, s := range c11Sensitive {
			cases = append(cases, c18Case{"statements", h + s + ";\n" + h + s})
		}
	}
	for _, s := range poisonInputs {
		cases = append(cases, c18Case{"split", s}, c18Case{"statements", s}, c18Case{"expr", s})
	}
	for _, s := range stateProbes {
		cases = append(cases, c18Case{"split", s}, c18Case{"statements", s}, c18Case{"expr", s})
	}
	for i, w := range reflexReserved() {
		sp := oddCase(w, i)
		cases = append(cases, c18Case{"query", "SELECT s." + sp + " FROM s"}, c18Case{"statement", "SELECT a FROM t " + sp + " a"}, c18Case{"expr", sp})
	}
	for _, ll := range gen.LongLiterals() {
		if len(ll.Text) < 20000 {
			cases = append(cases, c18Case{ll.Entry, ll.Text})
		}
	}
	for _, fam := range gen.WideFamilies {
		cases = append(cases, c18Case{fam.Entry, fam.Make(2000)})
	}
	r := gen.NewRand(c.Seed, 1800) // NOT shard dependent
	cs := c.Corpus()
	for i := 0; i < nMut; i++ {
		cc := cs[r.IntN(len(cs))]
		ents := cc.Entries()
		cases = append(cases, c18Case{ents[r.IntN(len(ents))], gen.Mutate(r, cc.Text, 3)})
	}
	return cases
}

// mutateTree scribbles over a returned tree: names, byte slices, appended children, positions.
func mutateTree(root ast.Node) {
	for _, in := range astx.Nodes(root) {
		if in.TypedNil {
			continue
		}
		v := reflect.ValueOf(in.Node)
		if v.Kind() != reflect.Ptr || v.IsNil() {
			continue
		}
		sv := v.Elem()
		for i := 0; i < sv.NumField(); i++ {
			f := sv.Field(i)
			if !f.CanSet() {
				continue
			}
			switch f.Kind() {
			case reflect.String:
				f.SetString(f.String() + "_MUTATED")
			case reflect.Slice:
				if f.Type().Elem().Kind() == reflect.Uint8 {
					b := f.Bytes()
					for k := range b {
						b[k] ^= 0xff
					}
				} else if f.Len() > 0 {
					// overwrite in place and append (may write into spare capacity)
					f.Index(0).Set(f.Index(f.Len() - 1))
					f.Set(reflect.Append(f, f.Index(0)))
				}
			case reflect.Int, reflect.Int64:
				f.SetInt(f.Int() + 1000)
			case reflect.Bool:
				f.SetBool(!f.Bool())
			}
		}
	}
}

func RunC18(c *Ctx) {
	cases := c18Inputs(c, c.Pick(1500, 20000))
	tabBefore := tableDigest()
	// (1a) sequential reference digests
	// Every shard is a fresh process and evaluates the set in a different order (forward, backward, shard-specific
	// permutations); the digests are combined by case index, so all shards must still agree. A cache that is filled by
	// whichever call comes first makes them disagree.
	ref := make([]uint64, len(cases))
	order := make([]int, len(cases))
	for i := range order {
		order[i] = i
	}
	switch {
	case c.Shard%4 == 1:
		for i, j := 0, len(order)-1; i < j; i, j = i+1, j-1 {
			order[i], order[j] = order[j], order[i]
		}
	case c.Shard%4 >= 2:
		order = gen.NewRand(77, uint64(c.Shard)).Perm(len(cases))
	}
	for _, i := range order {
		cs := cases[i]
		c.Journal(cs.entry, cs.input)
		ref[i], _ = digestSeq(cs.entry, cs.input)
		c.Eval()
		c.Distinct(cs.entry + "\x00" + cs.input)
	}
	all := fnv.New64a()
	for i := range cases {
		fmt.Fprintf(all, "%x;", ref[i])
	}
	// per-case digests in blocks, so that a disagreement can be narrowed down
	for b := 0; b*256 < len(cases); b++ {
		h := fnv.New64a()
		for i := b * 256; i < (b+1)*256 && i < len(cases); i++ {
			fmt.Fprintf(h, "%x;", ref[i])
		}
		c.SetAdd(fmt.Sprintf("agree:block%03d", b), fmt.Sprintf("%x", h.Sum64()))
	}
	// fresh-process determinism: every shard computes the same list; the driver compares
	c.SetAdd("agree:all_digests", fmt.Sprintf("%x/%d", all.Sum64(), len(cases)))
	c.SetAdd("agree:tables", fmt.Sprintf("%x", tabBefore))
	// (1b) shuffled order, interleaved with unrelated calls
	r := gen.NewRand(c.Seed, 1810+uint64(c.Shard))
	perm := r.Perm(len(cases))
	for _, i := range perm {
		cs := cases[i]
		if r.IntN(3) == 0 {
			other := cases[r.IntN(len(cases))]
			digestSeq(other.entry, other.input)
		}
		c.Journal(cs.entry, cs.input)
		d, _ := digestSeq(cs.entry, cs.input)
		c.Eval()
		if d != ref[i] {
			c.Violate("c18:order-dependent", cs.entry, cs.input, "the result differs when the call is repeated after other calls (digest of tree+SQL+errors)")
		}
	}
	c.Count("sequential_repeats", int64(len(cases)))
	c18Sequences(c, cases, ref)
	// (2) aliasing: two separately returned trees share no heap object; scribbling over one changes no later result
	for k := 0; k < c.Pick(300, 3000); k++ {
		i := r.IntN(len(cases))
		cs := cases[i]
		if cs.entry == "split" {
			continue
		}
		c.Journal(cs.entry, cs.input)
		p1 := Parse(cs.entry, cs.input)
		j := i
		if r.IntN(2) == 0 {
			j = r.IntN(len(cases))
		}
		if cases[j].entry == "split" {
			continue
		}
		p2 := Parse(cases[j].entry, cases[j].input)
		if p1.Panic != nil || p2.Panic != nil {
			continue
		}
		a1, a2 := map[uintptr]string{}, map[uintptr]string{}
		for _, rt := range p1.Roots {
			if !astx.IsNilNode(rt) {
				astx.Addrs(rt, a1)
			}
		}
		for _, rt := range p2.Roots {
			if !astx.IsNilNode(rt) {
				astx.Addrs(rt, a2)
			}
		}
		for addr, w := range a1 {
			if w2, ok := a2[addr]; ok {
				c.Violate("c18:shared-object:"+w, cs.entry, cs.input, fmt.Sprintf("two separately returned trees share a heap object: %s and %s", w, w2))
				break
			}
		}
		c.Count("alias_pairs", 1)
		c.Count("addresses_compared", int64(len(a1)+len(a2)))
		for _, rt := range p1.Roots {
			if !astx.IsNilNode(rt) {
				callSUT(func() { mutateTree(rt) })
			}
		}
		d, _ := digestSeq(cs.entry, cs.input)
		if d != ref[i] {
			c.Violate("c18:result-affected-by-mutation", cs.entry, cs.input, "after mutating a previously returned tree the same call returns a different result")
		}
		c.Eval()
	}
	// (2b) held results: every harvested error site and a sample of the set
	reps := c18ErrorReps(c)
	c.Count("error_site_representatives", int64(len(reps)))
	for k, rp := range reps {
		checkHeld(c, rp.entry, rp.input, reps[(k+1)%len(reps):(k+1)%len(reps)+1])
		c.SetAdd("error_site_entries", rp.entry)
	}
	for k := 0; k < c.Pick(150, 4000); k++ {
		i := r.IntN(len(cases))
		checkHeld(c, cases[i].entry, cases[i].input, cases[(i+1)%len(cases):(i+1)%len(cases)+1])
	}
	// (1c) concurrent: G goroutines released on a barrier, each parses a random subset in its own order
	G := 64
	rounds := c.Pick(3, 20)
	per := c.Pick(120, 400)
	for round := 0; round < rounds; round++ {
		var wg sync.WaitGroup
		start := make(chan struct{})
		type mismatch struct{ idx int }
		var mu sync.Mutex
		var bad []int
		seeds := make([]uint64, G)
		for g := range seeds {
			seeds[g] = r.Uint64()
		}
		for g := 0; g < G; g++ {
			wg.Add(1)
			go func(g int) {
				defer wg.Done()
				rr := gen.NewRand(seeds[g], uint64(g))
				idxs := make([]int, per)
				for k := range idxs {
					// a few hot inputs shared by all goroutines plus random ones
					if k%4 == 0 {
						idxs[k] = (round*7 + k) % len(cases)
					} else {
						idxs[k] = rr.IntN(len(cases))
					}
				}
				<-start
				for _, i := range idxs {
					d, _ := digestOf(cases[i].entry, cases[i].input)
					if d != ref[i] {
						mu.Lock()
						bad = append(bad, i)
						mu.Unlock()
					}
				}
			}(g)
		}
		c.Journal("concurrent-round", fmt.Sprint(round))
		close(start)
		wg.Wait()
		c.Count("concurrent_calls", int64(G*per))
		c.Res.Evals += int64(G * per)
		for _, i := range bad {
			c.Violate("c18:concurrent-result-differs", cases[i].entry, cases[i].input, "a call running concurrently with other calls returned a result different from the sequential one")
		}
	}
	// every harvested error site, original and shifted, from all goroutines at once (shared error objects, shared
	// position buffers): the sequential digests are the reference
	if len(reps) > 0 {
		type rc struct {
			c18Case
			ref uint64
		}
		var rcs []rc
		for _, rp := range reps {
			for _, in := range []string{rp.input, "\n\n   " + rp.input} {
				d, _ := digestSeq(rp.entry, in)
				rcs = append(rcs, rc{c18Case{rp.entry, in}, d})
			}
		}
		var wg sync.WaitGroup
		var mu sync.Mutex
		var bad []int
		start := make(chan struct{})
		for g := 0; g < G/4; g++ {
			wg.Add(1)
			go func(g int) {
				defer wg.Done()
				<-start
				for k := range rcs {
					i := (k*7 + g*13) % len(rcs)
					if g%2 == 1 {
						i = k
					}
					if d, _ := digestOf(rcs[i].entry, rcs[i].input); d != rcs[i].ref {
						mu.Lock()
						bad = append(bad, i)
						mu.Unlock()
					}
				}
			}(g)
		}
		c.Journal("concurrent-round", "error-sites")
		close(start)
		wg.Wait()
		c.Count("concurrent_calls", int64(G/4*len(rcs)))
		c.Res.Evals += int64(G / 4 * len(rcs))
		for _, i := range bad {
			c.Violate("c18:concurrent-result-differs", rcs[i].entry, rcs[i].input, "a call running concurrently with other calls returned a result different from the sequential one")
		}
	}
	c.Count("goroutines", int64(G))
	c.Count("rounds", int64(rounds))
	// (3) tables unchanged
	if tabAfter := tableDigest(); tabAfter != tabBefore {
		c.Violate("c18:tables-changed", "tables", "", "the package-level keyword / type-name tables changed during the workload")
	}
	c.Count("table_digests_compared", 1)
	c.Sample(cases[0].entry, cases[0].input, "member of the determinism set")
	c.Sample(cases[len(cases)-1].entry, cases[len(cases)-1].input, "mutant member of the determinism set")
}

// ReplayC18 re-checks one input: sequential repeat and a small concurrent burst.
func ReplayC18(c *Ctx, entry, input string) {
	checkHeld(c, entry, input, nil)
	ref, _ := digestOf(entry, input)
	for k := 0; k < 5; k++ {
		if d, _ := digestOf(entry, input); d != ref {
			c.Violate("c18:order-dependent", entry, input, "repeating the call gives a different result")
		}
	}
	var wg sync.WaitGroup
	var mu sync.Mutex
	diff := 0
	for g := 0; g < 32; g++ {
		wg.Add(1)
		go func() {
			defer wg.Done()
			for k := 0; k < 20; k++ {
				if d, _ := digestOf(entry, input); d != ref {
					mu.Lock()
					diff++
					mu.Unlock()
				}
			}
		}()
	}
	wg.Wait()
	if diff > 0 {
		c.Violate("c18:concurrent-result-differs", entry, input, fmt.Sprintf("%d concurrent calls returned a different result", diff))
	}
	c.Eval()
}

func reflexReserved() []string { return reflex.ReservedWords }

// oddCase gives a word an unusual but fixed mixed-case spelling.
func oddCase(w string, k int) string {
	b := []byte(w)
	for i := range b {
		if (i+k)%2 == 0 && b[i] >= 'A' && b[i] <= 'Z' {
			b[i] += 32
		}
	}
	return string(b)
}
