package mon

import (
	"fmt"

	"verif/internal/gen"
)

var allBadKinds = []string{"BadStatement", "BadQueryExpr", "BadExpr", "BadType", "BadDDL", "BadDML"}

func missingBadKinds(m *Merged) []string {
	var miss []string
	for _, k := range allBadKinds {
		if !m.SetHas("bad_kinds", k) {
			miss = append(miss, k)
		}
	}
	if len(miss) > 0 {
		return []string{fmt.Sprintf("Bad kinds not observed: %v", miss)}
	}
	return nil
}

func init() {
	register(&Prop{
		ID:          "C04",
		Run:         RunC04,
		Replay:      func(c *Ctx, entry, input string) { CheckC04(c, entry, input) },
		Rule:        "cases = (entry, input): corpus (clean and !bad_) under its entries and the list entries, type seeds, nesting families, wide lists (300..40000 elements), wide lists with one deep element (129..1200 elements x 130..1100-deep chain / parentheses / array nest at the first, middle, last-but-one and last position), long tokens, generated sentences of grammar G, token mutants / splices / random bytes, and an operand matrix (every primary-expression form x binary/unary/postfix/comparison context, complete and truncated); for every returned tree SQL(), Pos(), End() are called on every reflectively enumerated node and Walk/Inspect/Preorder(+Many) on every root; distinct_nontrivial = distinct (entry,input); Preorder / Inspect / PreorderMany / InspectMany are also stopped early at up to 14 points per tree (first two, middle, last two nodes, around every root boundary)",
		Assumptions: []string{"nodes are enumerated by reflection over exported fields, independently of ast.Walk"},
		Floors: func(m *Merged) []string {
			f := missingBadKinds(m)
			for _, set := range []string{"operand_of_binary", "operand_of_unary", "operand_of_postfix"} {
				for _, t := range []string{"NewConstructor", "BracedNewConstructor", "BracedConstructor", "ReplaceFieldsExpr", "WithExpr", "CallExpr", "CaseExpr", "ScalarSubQuery"} {
					if !m.SetHas(set, t) {
						f = append(f, set+" never saw "+t)
					}
				}
			}
			return f
		},
	})
	register(&Prop{
		ID:          "C05",
		Run:         RunC05,
		Replay:      func(c *Ctx, entry, input string) { CheckC05(c, entry, input) },
		Rule:        "cases = (entry, input) as in C04's tree workload plus the operand matrix and two tagged sub-workloads (@qpkw: back-quoted pseudo-keywords; every word of every corpus file / systematic sentence back-quoted in place); every node's Pos()/End() is checked against range, token boundaries of memefish.Lexer on the same input (midpoints of >> and <> added), containment in the parent and sibling order (CreateTable exempt); error trees: range, nesting, order only; distinct_nontrivial = distinct accepted (entry,input)",
		Assumptions: []string{"token boundaries come from memefish.Lexer, itself checked against the reference lexer by C13/C14"},
		Floors: func(m *Merged) []string {
			if m.Counters["trees_clean"] == 0 || m.Counters["trees_with_error"] == 0 {
				return []string{"clean and error trees must both be observed"}
			}
			return nil
		},
	})
	register(&Prop{
		ID:          "C09",
		Run:         RunC09,
		Replay:      func(c *Ctx, entry, input string) { CheckC09(c, entry, input) },
		Rule:        "cases = (entry, input) as in C04's tree workload (valid, mutated-valid, arbitrary); implications between error and Bad nodes, error element well-formedness, and for every accepted input the probe input+\"\\n)\" which must be rejected; distinct_nontrivial = distinct (entry,input)",
		Assumptions: []string{"'input remains => error' is decided by the trailing-junk probe, not by node positions (see DESIGN 3.C09)"},
		Floors: func(m *Merged) []string {
			if m.Counters["clean"] == 0 || m.Counters["with_bad_nodes"] == 0 || m.Counters["probes"] == 0 {
				return []string{"clean inputs, probes and Bad-node trees must be observed"}
			}
			return nil
		},
	})
	register(&Prop{
		ID:          "C10",
		Run:         RunC10,
		Replay:      func(c *Ctx, entry, input string) { CheckC10(c, entry, input) },
		Rule:        "cases = (entry, input) producing >= 1 Bad node, from token mutants / splices / random bytes / !bad_ corpus files / unclosed nesting and hand-written seeds (comment-separated tokens, split >>, nested recoveries); each BadNode is compared with the token stream of the whole input (NextToken, or the recovery-mode lexer via hook H2 when the input does not lex); distinct_nontrivial = distinct (entry,input) with >= 1 Bad node",
		Assumptions: []string{"tokens are taken from lexing the whole input (not the substring) because token kinds after '.' are context-sensitive; SQL() of a Bad node is re-lexed after the two preceding input tokens for the same reason"},
		Floors: func(m *Merged) []string {
			f := missingBadKinds(m)
			for _, k := range []string{"bad_tokens_with_comments", "bad_tokens_after_split_gtgt", "inputs_with_multiple_bad_nodes", "sql_relexed"} {
				if m.Counters[k] == 0 {
					f = append(f, k+" not observed")
				}
			}
			return f
		},
	})
}

func init() {
	register(&Prop{
		ID:  "C17",
		Run: RunC17,
		Replay: func(c *Ctx, entry, input string) {
			CheckC17(c, entry, input, gen.NewRand(c.Seed, 1700))
		},
		Rule:        "cases = (entry, input) of the tree workload (corpus, generated sentences, mutants incl. Bad trees); per tree: full Walk with a recording visitor (Visit/VisitMany/Field/Index trace vs reflective pre-order and slot paths), Inspect, 3 random prunings (Walk and Inspect), 3 Preorder cut-offs, and the *Many variants for list entries; distinct_nontrivial = distinct (entry,input); the recording visitor returns a fresh value from every callback and checks that Visit arrives at a value produced by root / Field / Index, VisitMany at root / Field, Field at the value Visit returned, Index at the value VisitMany returned",
		Assumptions: []string{"the reflective model (exported node-typed fields in declaration order) is the specification of 'reachable' and 'source order'"},
		Floors: func(m *Merged) []string {
			var f []string
			if m.SetLen("node_types") < 240 {
				f = append(f, fmt.Sprintf("only %d node types observed", m.SetLen("node_types")))
			}
			if m.Counters["prunings"] == 0 || m.Counters["cutoffs"] == 0 || m.Counters["walkmany"] == 0 || m.Counters["visitmany_checked"] == 0 {
				f = append(f, "prunings, cut-offs, WalkMany and VisitMany must be observed")
			}
			return f
		},
	})
	register(&Prop{
		ID:  "C19",
		Run: RunC19,
		Replay: func(c *Ctx, entry, input string) {
			if entry == "generate" {
				checkGenerated(c)
				return
			}
			CheckC19Tree(c, entry, input)
		},
		Rule:        "(a) gen-ast-pos and gen-ast-walk are run on the working tree and their output compared byte for byte with ast/pos.go and ast/walk_internal.go; (b) for every node of every tree of the tree workload, Pos()/End() are compared with an independent evaluator of the documented 'pos ='/'end =' lines and with the repository's poslang interpreter; (c) the catalog's node-typed fields vs the struct fields; distinct_nontrivial = distinct (entry,input); (d) each parsed tree is rebuilt with sibling slots of one dynamic type sharing one node instance (a hand-built DAG, shared subtrees < 40 nodes) and the traversal is compared with the field model again",
		Assumptions: []string{"the 'pos =' / 'end =' comment lines in ast/ast.go are the documentation; they are read with a regular expression and evaluated by internal/mon's own interpreter"},
		Floors: func(m *Merged) []string {
			var f []string
			if m.Counters["generated_files_compared"] != 2 {
				f = append(f, "both generators must have been run and compared")
			}
			if m.SetLen("node_types") < 240 {
				f = append(f, fmt.Sprintf("only %d node types evaluated", m.SetLen("node_types")))
			}
			return f
		},
	})
}

func init() {
	register(&Prop{
		ID:          "C01",
		Run:         RunC01,
		Replay:      func(c *Ctx, entry, input string) { CheckC01(c, entry, input) },
		Rule:        "cases = (entry, input) accepted without error, from the corpus under its entries and list entries, type seeds, generated sentences of grammar G under all renderers, the accepted fraction of token mutants / near misses (edits, truncations, moves, duplicated runs, inserted phrases, widened lists) the operand matrix (every primary-expression form x operator context x field-name kind after a dot), the value-slot matrix (94 expression forms x 51 slots that take any expression) and fold-alike names (a pseudo-keyword's spelling under Unicode case folding, back-quoted in its place); each is unparsed, re-parsed with the same entry, compared modulo positions (validity must agree) and unparsed again (fixed point); distinct_nontrivial = distinct accepted (entry,input); same-name variants (an identifier given the name of the previous / last-but-one identifier, all identifiers equal) and alias-collapse variants (operand AS x -> x AS x) of every systematic sentence",
		Assumptions: []string{"equality modulo positions is reflective over all exported fields; nil and empty slices are considered equal"},
		Floors: func(m *Merged) []string {
			if m.Counters["accepted"] < 1000 {
				return []string{"fewer than 1000 accepted inputs"}
			}
			return nil
		},
	})
	register(&Prop{
		ID:          "C11",
		Run:         RunC11,
		Replay:      func(c *Ctx, entry, input string) { CheckC11(c, entry, input) },
		Rule:        "cases = ';'-joined lists of 1-4 corpus statements (all kinds -> ParseStatements, DDL -> ParseDDLs, DML -> ParseDMLs), some token-mutated, plus end-of-input-sensitive statements (trailing select-list comma), literals and comments containing ';', with hostile trivia / empty statements around the separators, plus long homogeneous lists (4096 quick / 20000 thorough copies of each of 56 statement shapes incl. rejected ones, 2500 copies of each sentence of the systematic set of grammar G) that drive one parser instance through thousands of statements, and a ';' inserted in front of every token of every corpus file and systematic sentence; list parse vs SplitRawStatements + single parse of each piece with >= 1 token; distinct_nontrivial = distinct lists with >= 2 statements; all ordered pairs a;b (and a;b;b for the context-sensitive ones) of a statement pool (systematic set of G in canonical spelling, short corpus statements, 45 context-sensitive trailing-comma statements; quick: one per keyword skeleton, texts <= 160 bytes)",
		Assumptions: []string{"'lexes without error' is decided by memefish.Lexer (checked by C13/C14)"},
		Floors: func(m *Merged) []string {
			if m.Counters["lists_clean"] == 0 || m.Counters["lists_with_error"] == 0 || m.Counters["empty_pieces"] == 0 || m.Counters["positions_compared"] == 0 {
				return []string{"clean lists, failing lists, empty pieces and position comparisons must be observed"}
			}
			return nil
		},
	})
	register(&Prop{
		ID:          "C12",
		Run:         RunC12,
		Replay:      func(c *Ctx, entry, input string) { CheckC12(c, input) },
		Rule:        "cases = input strings: statement lists of C11's workload, exhaustive strings up to 6 (quick) / 7 (thorough) symbols over {a ; ' \" ` - / * # LF SP \\}, token soups and hostile random bytes, every Unicode whitespace character and its non-whitespace neighbours around top-level ';', the literal matrix (every prefix x quote form x escape / backslash run x quote run, complete and truncated) alone and between separators; pieces are checked against the independent reference lexer's tokens and comments; distinct_nontrivial = distinct accepted inputs with >= 1 ';' token and >= 1 other token",
		Assumptions: []string{"the reference lexer decides 'has a lexical error'; inputs where it answers unspecified are not judged"},
		Floors: func(m *Merged) []string {
			if m.Counters["ref_accept"] == 0 || m.Counters["ref_reject"] == 0 || m.Counters["comments"] == 0 || m.Counters["semicolons"] == 0 {
				return []string{"accepted and rejected inputs, comments and semicolons must be observed"}
			}
			return nil
		},
	})
}

func init() {
	register(&Prop{
		ID:          "C18",
		Run:         RunC18,
		Replay:      ReplayC18,
		Race:        true,
		Rule:        "worker built with -race; determinism set = corpus under every entry + 2-statement lists + SplitRawStatements + type seeds + token mutants (same in every shard); per shard: sequential reference digests (tree incl. positions, SQL, Pos/End of every node, walk count, error list), repetition in shuffled order interleaved with unrelated calls, aliasing check of address sets of separately returned trees + mutation of a returned tree followed by a repeat, rounds of 64 goroutines released on a barrier (each with its own order, hot inputs shared) whose digests are compared with the sequential ones, package-table digest before/after; held results: for every error-site representative of errsites.tsv (one short input per (entry, error message shape), written by cmd/harvest) and a sample of the set, the result is kept, the same text is parsed again at shifted positions, and the kept result must read the same; all error sites from 16 goroutines at once; shards are fresh processes and must agree on the digest of the whole set; race reports are counted in GORACE log files; distinct_nontrivial = distinct (entry,input) of the determinism set; the determinism set also holds multi-key hints in front of every short corpus statement and every context-sensitive statement",
		Assumptions: []string{"the race detector only sees accesses that execute; schedules are not enumerated", "sharing one Parser/Lexer/File value between goroutines is out of scope"},
		Floors: func(m *Merged) []string {
			var f []string
			if m.Counters["race_canary_fired"] != 1 {
				f = append(f, "race canary did not fire")
			}
			if m.Counters["concurrent_calls"] == 0 || m.Counters["alias_pairs"] == 0 {
				f = append(f, "concurrent calls and alias pairs must be observed")
			}
			return f
		},
	})
}

func init() {
	register(&Prop{
		ID:          "C02",
		Run:         RunC02,
		Replay:      func(c *Ctx, entry, input string) { CheckC02(c, entry, input) },
		Rule:        "cases = sentences of grammar G (systematic each-choice set under 3 render policies + random derivations under random trivia / case / quoting), plus corpus files, accepted token mutants and near misses, the operand matrix, the value-slot matrix, fold-alike names and qualified special forms; expected = significant tokens of the input by the independent reference lexer in normal form (identifiers by name, literals by decoded value, numbers by spelling, keywords / punctuation by kind), observed = the same normal form of SQL(); only the documented canonicalisations are applied (noise words INNER/OUTER/INTO/ARE/DELETE's FROM, <> vs !=, >> split, optional commas, CREATE TABLE element grouping); distinct_nontrivial = distinct token-kind skeletons of accepted inputs with >= 5 tokens",
		Assumptions: []string{"the reference lexer (not the parser, not memefish.Lexer) tokenizes both the input and SQL()", "pseudo-keywords compare case-insensitively, user identifiers exactly"},
		Floors: func(m *Merged) []string {
			if m.Counters["accepted"] < 1000 || m.Counters["g_systematic"] == 0 {
				return []string{"accepted inputs and the systematic set must be observed"}
			}
			return nil
		},
	})
	register(&Prop{
		ID:          "C08",
		Run:         RunC08,
		Replay:      func(c *Ctx, entry, input string) { CheckC08(c, entry, input) },
		Rule:        "cases = sentences of grammar G written from the documentation (internal/gen/grammar.go, ddl.go; scope in internal/gen/SCOPE.md): the systematic each-choice set (every alternative of every production, every optional clause on/off, every list at lengths min/min+1/3) under upper-case/canonical, lower-case/tight and random-case/hostile-trivia renderings, plus random derivations; each must be accepted by its entry point and by ParseStatement with reflect.DeepEqual trees (positions included); random ';'-joined lists of 0-5 accepted sentences with and without trailing ';' through ParseStatements/ParseDDLs/ParseDMLs; value-slot matrix (every expression form in every slot that takes any expression must be accepted); size relation: a sentence (systematic set, corpus, hand-written hosts with parenthesised query operands) accepted with one of its lists widened by 13 elements must be accepted with it widened by 900; distinct_nontrivial = distinct token-kind skeletons; a query slot matrix (9 query forms as parenthesised leading operand x 12 larger query forms x 22 query slots)",
		Assumptions: []string{"G is the reference grammar; constructs memefish does not implement are excluded and recorded in SCOPE.md", "documented forms that memefish rejects are fixed scope probes, listed in KNOWN_FINDINGS.txt by exact input"},
		Floors: func(m *Merged) []string {
			var f []string
			if m.Counters["lists_checked"] == 0 || m.Counters["entry_pairs_compared"] == 0 {
				f = append(f, "lists and entry-point pairs must be observed")
			}
			if m.Max["grammar_alternatives_taken_by_systematic_set"] < 0.99*m.Max["grammar_alternatives_total"] {
				f = append(f, "systematic set does not take every alternative")
			}
			return f
		},
	})
	register(&Prop{
		ID:          "C16",
		Run:         RunC16,
		Replay:      ReplayC16,
		Rule:        "cases = (accepted text, re-spelling): sentences of G re-rendered k times with hostile trivia (blanks, tabs, newlines, CR LF, /* */, --, #, // comments containing ; ' \" `) and lower / mixed / random case of reserved keywords AND pseudo-keywords (roles known to the generator), identifiers and literals spelled identically; corpus files re-spelled in trivia and reserved-keyword case only; whatever else the parser accepts (near misses, scope probes, qualified special forms, wide hosts) re-spelled in trivia and reserved-keyword case; every re-spelling passes the re-lex guard (same token sequence by the reference lexer); distinct_nontrivial = distinct sentence skeletons / corpus files",
		Assumptions: []string{"whitespace is ASCII white space (the reference lexer does not judge other Unicode spaces)", "trivia next to a '.' is left unchanged in corpus re-spellings (documentation silent)"},
		Floors: func(m *Merged) []string {
			if m.Counters["respellings_compared"] < 1000 {
				return []string{"fewer than 1000 re-spellings compared"}
			}
			return nil
		},
	})
}

func init() {
	register(&Prop{
		ID:          "C07",
		Run:         RunC07,
		Replay:      ReplayC07,
		Rule:        "cases = operator trees over OR AND NOT = != <> < <= > >= [NOT] LIKE, [NOT] IN (list / UNNEST), [NOT] BETWEEN, IS [NOT] NULL/TRUE/FALSE, | ^ & << >> + - * / ||, unary + - ~, .f, [i], [OFFSET(i)] with ident / param / string / int / call / INT64-boundary atoms and atoms that bring their own brackets or keywords (scalar, ARRAY and EXISTS sub-query, CASE, CAST, array literal, tuple): exhaustive for all trees with up to 3 (quick) / 4 (thorough) operator occurrences, random trees up to 12 operators; each printed minimally parenthesised (by the documented table) and fully parenthesised; the parsed tree must equal the generating tree (ParenExpr exactly where a parenthesis was written; sign folding into numeric literals and ident.ident Path folding applied) and SQL() must re-lex to the same tokens; plus long chains (257 / 4099 / 12000, thorough 70001 operands) of every left-associative binary operator, of two operators of adjacent or equal precedence alternating, of each prefix operator and of subscripts, whose spine is checked node by node; plus all 324 unparenthesised chains of two comparison-family operators, which must be rejected; distinct_nontrivial = enumerated trees (distinct by construction) + distinct random trees",
		Assumptions: []string{"the precedence table in internal/mon/c07.go is the documented GoogleSQL table (levels as listed in the property statement)"},
		Floors: func(m *Merged) []string {
			if m.Counters["trees_checked"] == 0 || m.Counters["negative_cases"] == 0 || m.Counters["long_chains"] == 0 {
				return []string{"trees, long chains and negative cases must be observed"}
			}
			return nil
		},
	})
}

func init() {
	register(&Prop{
		ID:          "C06",
		Run:         RunC06,
		Replay:      func(c *Ctx, entry, input string) { CheckC06(c, entry, input) },
		Rule:        "cases = accepted inputs whose own round trip (C01) holds: corpus, type seeds, sentences of G (systematic set under 3 renderings + random), accepted token mutants and near misses (<= 1200 bytes), the operand matrix, every corpus statement and systematic sentence as second element of a list; for every node with a sane range: (a) if it sits in a slot whose static type is Expr / Type / QueryExpr / Statement / DDL / DML, input[Pos:End] is parsed on its own with the matching entry point and must give a tree equal to the node modulo positions; (b) input[:Pos]+' '+SQL()+' '+input[End:] must parse under the original entry point to a tree equal to the original; a node is reported only if all its descendants pass (root cause); distinct_nontrivial = distinct (entry,input); same-name and alias-collapse variants of every systematic sentence",
		Assumptions: []string{"the slot rule (static field type) implements the property's exclusions: single-identifier Path, field-name Ident, NamedType in SchemaType slots are never in an Expr/Type slot"},
		Floors: func(m *Merged) []string {
			if m.Counters["substring_parses"] == 0 || m.Counters["splices"] == 0 || m.SetLen("substring_parsed_types") < 40 {
				return []string{"sub-range parses, splices and >= 40 node types in parseable slots must be observed"}
			}
			return nil
		},
	})
}
