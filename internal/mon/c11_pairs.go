package mon

import (
	"sort"
	"strings"

	"verif/internal/gen"
	"verif/internal/reflex"
)

// c11Sensitive are statements whose acceptance depends on a context decision of the parser (optional trailing commas
// in front of FROM / ')' / a pipe / end of input, inside queries that sit in DML, DDL and sub-query positions):
// the places where state left behind by an EARLIER statement of the list would show.
var c11Sensitive = []string{
	"SELECT a, FROM u", "SELECT a, b, FROM u WHERE TRUE", "INSERT INTO t (a) SELECT a, FROM u", "INSERT t (a, b) SELECT a, b, FROM u",
	"CREATE VIEW v SQL SECURITY INVOKER AS SELECT a, FROM u", "CREATE OR REPLACE VIEW v SQL SECURITY DEFINER AS SELECT a, b, FROM u",
	"SELECT (SELECT a, FROM u)", "SELECT * FROM (SELECT a, FROM u)", "UPDATE t SET a = (SELECT b, FROM u) WHERE TRUE",
	"DELETE FROM t WHERE a IN (SELECT b, FROM u)", "SELECT ARRAY(SELECT a, FROM u)", "SELECT EXISTS(SELECT a, FROM u)",
	"WITH c AS (SELECT a, FROM u) SELECT b, FROM c", "SELECT a, FROM u UNION ALL SELECT b, FROM w", "(SELECT a, FROM u)",
	"FROM s |> SELECT x", "FROM s |> SELECT x,", "FROM s |> SELECT x, |> WHERE TRUE", "FROM s |> SELECT (SELECT a, FROM u)",
	"FROM s |> WHERE x IN (SELECT a, FROM u)", "SELECT 1 |> SELECT a, b", "FROM s |> SELECT x |> SELECT y,",
	"CREATE TABLE t (a INT64,) PRIMARY KEY (a)", "CREATE TABLE t (a INT64, b STRING(MAX),) PRIMARY KEY (a, b)",
	"SELECT AS STRUCT a, FROM u", "SELECT DISTINCT a, FROM u", "SELECT a AS x, FROM u", "SELECT *, FROM u", "SELECT u.*, FROM u",
	"INSERT INTO t (a) VALUES (1), (2)", "INSERT INTO t (a) (SELECT a, FROM u)", "INSERT OR UPDATE t (a) SELECT a, FROM u THEN RETURN a",
	"UPDATE t SET a = 1 WHERE a IN (SELECT b, FROM u) THEN RETURN a", "GRANT SELECT ON TABLE t TO ROLE r", "CALL p((SELECT a, FROM u))",
	"SELECT CASE WHEN a THEN 1 END, FROM u", "SELECT a, FROM u GROUP BY a", "SELECT a, FROM u@{FORCE_INDEX=i}", "SELECT a, FROM UNNEST([1, 2]) AS a",
	"SELECT NEW P {a: 1, b: 2}", "SELECT {a: 1 b: 2}", "SELECT [1, 2][OFFSET(0)]", "SELECT IF(a, b, c)", "SELECT a IS NULL", "SELECT a IN (1, 2)",
}

// c11Pairs: every ordered pair (first, second) of a pool of statements as a two-statement list, plus (first, second,
// second). The pool is the systematic set of grammar G in canonical spelling (statement, query, DDL and DML
// sentences), the short corpus statements and c11Sensitive. A parser field that one statement sets and a different
// statement kind reads (a context flag cleared only by some statement parsers) shows for exactly one such pair.
func c11Pairs(c *Ctx) {
	maxLen := c.Pick(160, 260)
	seen := map[string]bool{}
	var pool []string
	add := func(s string) {
		s = strings.TrimSpace(s)
		if s == "" || len(s) > maxLen || seen[s] {
			return
		}
		// the text must end so that a following separator is a separator (no trailing line comment)
		toks := reflex.Lex(s + "\n;")
		if toks.Status != reflex.Accept || len(toks.Toks) < 2 || toks.Toks[len(toks.Toks)-1].Kind != ";" {
			return
		}
		seen[s] = true
		pool = append(pool, s)
	}
	for _, s := range c11Sensitive {
		add(s)
	}
	nSens := len(pool)
	set, _, _ := gen.SystematicSet()
	r := gen.NewRand(1, 4300)
	for _, s := range set {
		switch s.Entry {
		case "statement", "query", "ddl", "dml":
			txt := gen.Render(r, s, renderPolicies[0])
			if gen.RelexGuard(txt, s) {
				add(txt)
			}
		}
	}
	for _, cc := range c.Corpus() {
		if cc.Dir != "expr" && !cc.Bad {
			add(cc.Text)
		}
	}
	// quick: one representative per keyword skeleton for the non-sensitive part of the pool
	firsts := pool
	if !c.Thorough() {
		skel := map[string]bool{}
		firsts = append([]string{}, pool[:nSens]...)
		for _, s := range pool[nSens:] {
			k := keywordSkeleton(s)
			if !skel[k] {
				skel[k] = true
				firsts = append(firsts, s)
			}
		}
	}
	sort.Strings(firsts[nSens:])
	seconds := firsts
	c.MaxF("pair_pool_firsts", float64(len(firsts)))
	c.MaxF("pair_pool_seconds", float64(len(seconds)))
	idx := 0
	for _, a := range firsts {
		for j, b := range seconds {
			if c.Mine(idx) {
				CheckC11(c, "statements", a+"\n;\n"+b)
				c.Count("ordered_pairs", 1)
				if j < nSens {
					CheckC11(c, "statements", a+";"+b+";\n"+b+";")
				}
			}
			idx++
		}
	}
	c.Res.Exhaustive["all_ordered_pairs_of_the_statement_pool_as_two_statement_lists"] = true
}

// keywordSkeleton is the sequence of reserved words and punctuation of a text (identifiers and literals dropped).
func keywordSkeleton(s string) string {
	var sb strings.Builder
	for _, t := range reflex.Lex(s).Toks {
		switch t.Kind {
		case reflex.KIdent, reflex.KInt, reflex.KFloat, reflex.KString, reflex.KBytes, reflex.KParam:
		default:
			sb.WriteString(t.Kind)
			sb.WriteByte(' ')
		}
	}
	return sb.String()
}
