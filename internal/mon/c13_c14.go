package mon

import (
	"fmt"
	"strings"
	"unicode"
	"unicode/utf8"

	memefish "github.com/cloudspannerecosystem/memefish"
	"github.com/cloudspannerecosystem/memefish/token"

	"verif/internal/gen"
	"verif/internal/reflex"
)

// ---------------------------------------------------------------------------
// C13: lexing is lossless

func completeComment(raw string) bool {
	switch {
	case strings.HasPrefix(raw, "/*"):
		if len(raw) < 4 || !strings.HasSuffix(raw, "*/") {
			return false
		}
		// the first "*/" after the opener must be the final one
		return strings.Index(raw[2:], "*/") == len(raw)-4
	case strings.HasPrefix(raw, "#"), strings.HasPrefix(raw, "--"), strings.HasPrefix(raw, "//"):
		i := strings.IndexByte(raw, '\n')
		return i < 0 || i == len(raw)-1
	}
	return false
}

func onlySpace(s string) bool {
	for i := 0; i < len(s); {
		r, sz := utf8.DecodeRuneInString(s[i:])
		if !unicode.IsSpace(r) {
			return false
		}
		i += sz
	}
	return true
}

// CheckC13 checks one input. It returns true if the lexer accepted it.
func CheckC13(c *Ctx, input string) (accepted bool) {
	c.Journal("lex", input)
	var toks []token.Token
	var lexErr error
	var stickyBad string
	pv, _ := callSUT(func() {
		l := &memefish.Lexer{File: &token.File{FilePath: FilePath, Buffer: input}}
		for i := 0; i < len(input)+2; i++ {
			if err := l.NextToken(); err != nil {
				lexErr = err
				return
			}
			toks = append(toks, l.Token)
			if l.Token.Kind == token.TokenEOF {
				break
			}
		}
		if n := len(toks); n > 0 && toks[n-1].Kind == token.TokenEOF {
			for k := 0; k < 2; k++ {
				if err := l.NextToken(); err != nil {
					stickyBad = "error after <eof>: " + err.Error()
					return
				}
				if l.Token.Kind != token.TokenEOF || int(l.Token.Pos) != len(input) || l.Token.Raw != "" {
					stickyBad = fmt.Sprintf("token after <eof>: kind=%s pos=%d raw=%q", l.Token.Kind, l.Token.Pos, l.Token.Raw)
					return
				}
			}
		}
	})
	c.Eval()
	if pv != nil {
		c.Count("panics_left_to_C03", 1)
		return false
	}
	if lexErr != nil {
		c.Count("rejected", 1)
		return false
	}
	c.Count("accepted", 1)
	c.Count("tokens", int64(len(toks)))
	v := func(sig, detail string) { c.Violate("c13:"+sig, "lex", input, detail) }
	if stickyBad != "" {
		v("eof-not-sticky", stickyBad)
	}
	n := len(toks)
	if n == 0 || toks[n-1].Kind != token.TokenEOF {
		v("no-eof", "token stream does not end with <eof>")
		return true
	}
	var sb strings.Builder
	last := 0
	for i, t := range toks {
		if t.Kind == token.TokenEOF && i != n-1 {
			v("eof-not-last", fmt.Sprintf("<eof> at index %d of %d", i, n))
		}
		for _, cm := range t.Comments {
			c.Count("comments", 1)
			sb.WriteString(cm.Space)
			sb.WriteString(cm.Raw)
			if !onlySpace(cm.Space) {
				v("space-not-ws", fmt.Sprintf("comment space %q", cm.Space))
			}
			if int(cm.Pos) < last || cm.End < cm.Pos || int(cm.End) > len(input) {
				v("comment-range", fmt.Sprintf("comment range %d..%d after %d", cm.Pos, cm.End, last))
			} else {
				if input[cm.Pos:cm.End] != cm.Raw {
					v("comment-raw", fmt.Sprintf("comment raw %q != input[%d:%d]=%q", cm.Raw, cm.Pos, cm.End, input[cm.Pos:cm.End]))
				}
				last = int(cm.End)
			}
			if !completeComment(cm.Raw) {
				v("comment-incomplete", fmt.Sprintf("comment %q is not one complete comment", cm.Raw))
			}
		}
		sb.WriteString(t.Space)
		sb.WriteString(t.Raw)
		if !onlySpace(t.Space) {
			v("space-not-ws", fmt.Sprintf("token space %q", t.Space))
		}
		if int(t.Pos) < last || t.End < t.Pos || int(t.End) > len(input) {
			v("token-range", fmt.Sprintf("token %s range %d..%d after %d", t.Kind, t.Pos, t.End, last))
			continue
		}
		if input[t.Pos:t.End] != t.Raw {
			v("token-raw", fmt.Sprintf("token %s raw %q != input[%d:%d]=%q", t.Kind, t.Raw, t.Pos, t.End, input[t.Pos:t.End]))
		}
		last = int(t.End)
		if t.Kind != token.TokenEOF && t.Raw == "" {
			v("empty-token", fmt.Sprintf("empty %s token at %d", t.Kind, t.Pos))
		}
	}
	if sb.String() != input {
		v("tiling", fmt.Sprintf("concatenation %q != input", sb.String()))
	}
	return true
}

func skeletonOf(toks []token.Token) string {
	var sb strings.Builder
	for _, t := range toks {
		switch t.Kind {
		case token.TokenIdent:
			sb.WriteString("id ")
		case token.TokenInt, token.TokenFloat, token.TokenString, token.TokenBytes:
			sb.WriteString("lit ")
		case token.TokenParam:
			sb.WriteString("par ")
		default:
			sb.WriteString(string(t.Kind))
			sb.WriteByte(' ')
		}
	}
	return sb.String()
}

// enumWorkload drives f over the exhaustive alphabet strings (sharded) and returns the count.
func enumWorkload(c *Ctx, L int, f func(s string)) int {
	total := gen.EnumCount(L)
	buf := make([]byte, 0, 8)
	n := 0
	for i := c.Shard; i < total; i += max(c.NShards, 1) {
		buf = gen.EnumString(i, buf)
		f(string(buf))
		n++
	}
	c.Res.Exhaustive[fmt.Sprintf("alphabet24_len<=%d", L)] = true
	c.Count("enum_strings", int64(n))
	return n
}

// lexExtras drives f over the non-exhaustive lexical workloads (sharded by case index).
func lexExtras(c *Ctx, nRandom int, f func(s string)) {
	idx := 0
	emit := func(s string) {
		if c.Mine(idx) {
			f(s)
		}
		idx++
	}
	c.Count("literal_matrix", int64(gen.LiteralMatrix(emit)))
	for _, s := range gen.NumberForms() {
		emit(s)
		emit(s + " ")
		emit(" " + s)
		emit("(" + s + ")")
		emit("x" + s)
		emit(s + "x")
		emit(s + ".y")
		emit(s + "+" + s)
	}
	c.Count("keyword_forms", int64(gen.KeywordCasings(reflex.ReservedWords, emit)))
	// comment forms
	for _, s := range []string{"/**/", "/*/", "/*/*/", "/* */ */", "/*", "/* ", "/*\n*/", "/* -- */", "--", "-- /*", "--\n", "#", "#\n#", "//", "// x\n/", "/ /", "- -", "a--b", "a-- b\nc", "a//b", "a/ /b", "a#b\nc", "a/*b*/c", "a /*b*/ /*c*/ d", "/*a*//*b*/", "/***/", "/**/*/", "/*/ */", "--/*\n*/", "/*--*/", "'/*'", "\"--\"", "`#`", "a./*c*/b", "a. --c\n b", "1/*c*/.5", "a/**/.5", "a.\n5", "a . 5", "a.5 .6", "a.b.1e5.0x", "a.`b`.c", "a.select", "a.SELECT.from", "a. select", "(a).1", "f().x", "a[0].1", "@p.1", "?.1", "? .x", "NULL.1", "1.x", "select.x", "select.1", "END.x", "*.1", ". 1", ".a", "..a", "a..b", "a...b", "a.b..c"} {
		emit(s)
	}
	// token length sweep: every token and trivia shape with a body of every length 0..L (block-wise fast paths,
	// buffers and size thresholds sit at lengths no short enumeration reaches), followed by a tail in which the same
	// terminator occurs again, so a missed terminator swallows tokens instead of failing
	{
		L := c.Pick(300, 2100)
		shapes := [][2]string{
			{"/*", "*/ x /* y */ z"}, {"--", "\nx -- y\nz"}, {"#", "\nx # y\nz"}, {"//", "\nx // y\nz"},
			{"'", "' x 'y' z"}, {"\"", "\" x \"y\" z"}, {"`", "` x `y` z"}, {"'''", "''' x '''y''' z"},
			{"r\"\"\"", "\"\"\" x \"\"\"y\"\"\" z"}, {"b'", "' x b'y' z"}, {"rb'", "' x 'y' z"},
			{"a", " x y"}, {"1", " 2 3"}, {"0x", " 0x1 z"}, {"1.", "e1 .5 z"}, {"@", " @y z"}, {"x", "x.1 z"},
		}
		fillers := []string{"a", "*", " ", "1"}
		lasts := []string{"", "*", "/", "\\", "\n"}
		nsweep := 0
		for n := 0; n <= L; n++ {
			for _, sh := range shapes {
				for _, fl := range fillers {
					body := strings.Repeat(fl, n)
					for _, la := range lasts {
						b := body
						if la != "" {
							if n == 0 {
								continue
							}
							b = body[:n-1] + la
						}
						emit(sh[0] + b + sh[1])
						emit(" x " + sh[0] + b + sh[1])
						nsweep += 2
					}
				}
			}
			// whitespace runs of every length between two tokens
			for _, ws := range []string{" ", "\n", "\t", "\r\n"} {
				emit("a" + strings.Repeat(ws, n) + "b /*c*/ d")
				nsweep++
			}
		}
		c.Count("token_length_sweep", int64(nsweep))
		c.Res.Exhaustive[fmt.Sprintf("token_and_trivia_shapes_body_length_0..%d", L)] = true
	}
	// every byte value between two tokens, with and without blanks around it
	for b := 0; b < 256; b++ {
		x := string([]byte{byte(b)})
		for _, f := range []string{"a%sb", "a %sb", "a%s b", "a %s b", "1\n%s2", "(%s)", "a.%sb", "'%s'", "`%s`", "/*%s*/x", "--%s\nx", "%s", " %s", "%s "} {
			emit(strings.ReplaceAll(f, "%s", x))
		}
	}
	// every code point (surrogates as their 3-byte encodings too) between two tokens: whitespace characters must be
	// skipped, everything else outside a literal is the lexer's to reject or not, but never to mis-tile
	for cp := 0x80; cp <= 0x10FFFF; cp++ {
		var x string
		if cp >= 0xD800 && cp <= 0xDFFF {
			x = string([]byte{0xED, byte(0x80 | (cp>>6)&0x3F), byte(0x80 | cp&0x3F)})
		} else {
			x = string(rune(cp))
		}
		emit("a" + x + "b")
		emit("1 " + x + " ;")
		emit(x + "a") // first thing in the input
		emit(x + " -- c\nx.1")
		if cp < 0x3100 || cp%16 == 0 {
			emit(x)
			emit("a" + x + " b")
			emit("a " + x + "b")
			emit("a" + x + "\n" + x + x + " b")
			emit("'" + x + "'")
			emit("/*" + x + "*/" + x)
		}
	}
	c.Res.Exhaustive["every_code_point_between_two_tokens"] = true
	// every code point written as a \u / \U escape in a string, and the 4-digit ones in a quoted identifier
	for cp := 0; cp <= 0x110000; cp++ {
		if cp <= 0xFFFF {
			emit(fmt.Sprintf("'\\u%04x'", cp))
			if cp%7 == 0 {
				emit(fmt.Sprintf("`\\u%04X`", cp))
				emit(fmt.Sprintf("b'\\u%04x'", cp))
			}
		}
		if cp <= 0xFFFF || cp%97 == 0 || cp >= 0x10FFF0 {
			emit(fmt.Sprintf("\"\\U%08x\"", cp))
		}
	}
	c.Res.Exhaustive["all_\\uXXXX_escapes_and_all_BMP_\\UXXXXXXXX_escapes"] = true
	// sentences of grammar G under hostile quoting / trivia (every literal and identifier spelling the renderer knows)
	{
		set, _, _ := gen.SystematicSet()
		rr := gen.NewRand(c.Seed, 1350)
		for _, s := range set {
			for k := 0; k < 3; k++ {
				emit(gen.Render(rr, s, gen.RenderOpts{Trivia: 2, Case: 3, Quote: 1}))
			}
		}
		g := gen.NewG(rr)
		for i := 0; i < nRandom/40; i++ {
			s := g.Generate(gen.StartSymbols[rr.IntN(len(gen.StartSymbols))], 4+rr.IntN(8))
			emit(gen.Render(rr, s, gen.RenderOpts{Trivia: rr.IntN(3), Case: rr.IntN(4), Quote: 1}))
		}
	}
	// corpus files are real token streams
	if cs, err := gen.LoadCorpus(c.CorpusDir()); err == nil {
		for _, cc := range cs {
			emit(cc.Text)
		}
	}
	r := gen.NewRand(c.Seed, 1300+uint64(c.Shard))
	for i := 0; i < nRandom/max(c.NShards, 1); i++ {
		f(gen.RandBytes(r, 40))
	}
	c.Count("random_strings", int64(nRandom/max(c.NShards, 1)))
}

func RunC13(c *Ctx) {
	L := c.Pick(5, 6)
	one := func(s string) {
		if CheckC13(c, s) {
			// non-trivial: accepted with >= 2 tokens before eof
		}
	}
	n := enumWorkload(c, L, one)
	_ = n
	lexExtras(c, c.Pick(400_000, 8_000_000), func(s string) {
		if CheckC13(c, s) {
			c.Distinct(s)
		}
		if c.Res.Evals%50000 == 1 {
			c.Sample("lex", s, "random/matrix workload")
		}
	})
	// every enumerated string is distinct by construction; accepted ones are counted
	c.Count("distinct_enum_accepted", c.Res.Counters["accepted"])
}

// ---------------------------------------------------------------------------
// C14: conformance with the reference lexer

// CheckC14 compares memefish with the reference lexer on one input.
func CheckC14(c *Ctx, input string) {
	ref := reflex.Lex(input)
	c.Journal("lex", input)
	lr := Lex(input)
	c.Eval()
	if lr.Panic != nil {
		c.Count("panics_left_to_C03", 1)
		return
	}
	switch ref.Status {
	case reflex.Unspecified:
		c.Count("unspecified", 1)
		c.SetAdd("unspecified_reasons", ref.Why)
		return
	case reflex.Reject:
		c.Count("ref_reject", 1)
		if lr.Err == nil {
			c.Violate("c14:accepts-invalid:"+ref.Why, "lex", input, fmt.Sprintf("reference rejects at %d (%s); memefish accepts with %d tokens", ref.ErrPos, ref.Why, len(lr.Tokens)))
		}
		return
	}
	c.Count("ref_accept", 1)
	if lr.Err != nil {
		c.Violate("c14:rejects-valid:"+errClass(lr.Err), "lex", input, fmt.Sprintf("reference accepts (%d tokens); memefish: %v", len(ref.Toks), lr.Err))
		return
	}
	toks := lr.Tokens
	if n := len(toks); n > 0 && toks[n-1].Kind == token.TokenEOF {
		toks = toks[:n-1]
	}
	c.Count("tokens_compared", int64(len(ref.Toks)))
	for i := 0; i < len(ref.Toks) && i < len(toks); i++ {
		a, b := ref.Toks[i], toks[i]
		if a.Kind != string(b.Kind) {
			c.Violate("c14:kind:"+kindClass(a.Kind)+"->"+kindClass(string(b.Kind)), "lex", input, fmt.Sprintf("token %d: reference %s %q, memefish %s %q", i, a.Kind, input[a.Pos:a.End], b.Kind, b.Raw))
			return
		}
		if a.Pos != int(b.Pos) || a.End != int(b.End) {
			c.Violate("c14:boundary:"+kindClass(a.Kind), "lex", input, fmt.Sprintf("token %d (%s): reference %d..%d, memefish %d..%d", i, a.Kind, a.Pos, a.End, b.Pos, b.End))
			return
		}
		switch a.Kind {
		case reflex.KIdent, reflex.KParam, reflex.KString, reflex.KBytes:
			if a.Value != b.AsString {
				c.Violate("c14:value:"+a.Kind, "lex", input, fmt.Sprintf("token %d (%s %q): reference value %q, memefish %q", i, a.Kind, input[a.Pos:a.End], a.Value, b.AsString))
				return
			}
		case reflex.KInt:
			if a.Base != b.Base {
				c.Violate("c14:base", "lex", input, fmt.Sprintf("token %d (%q): reference base %d, memefish %d", i, input[a.Pos:a.End], a.Base, b.Base))
				return
			}
		}
	}
	if len(ref.Toks) != len(toks) {
		c.Violate("c14:count", "lex", input, fmt.Sprintf("reference %d tokens, memefish %d", len(ref.Toks), len(toks)))
		return
	}
	if len(toks) >= 2 {
		c.Distinct(skeletonOf(toks) + "|" + valueShape(ref.Toks))
	}
}

func valueShape(ts []reflex.Tok) string {
	var sb strings.Builder
	for _, t := range ts {
		if t.Kind == reflex.KString || t.Kind == reflex.KBytes || t.Quoted {
			sb.WriteString(t.Value)
			sb.WriteByte(0)
		}
	}
	return sb.String()
}

func kindClass(k string) string {
	if len(k) > 0 && k[0] == '<' {
		return k
	}
	if len(k) > 0 && ((k[0] >= 'A' && k[0] <= 'Z') || k[0] == '_') {
		return "KW"
	}
	return k
}

func errClass(err error) string {
	if e, ok := err.(*memefish.Error); ok {
		return firstWords(e.Message, 3)
	}
	return fmt.Sprintf("%T", err)
}

func RunC14(c *Ctx) {
	L := c.Pick(5, 6)
	enumWorkload(c, L, func(s string) { CheckC14(c, s) })
	c14Words(c)
	lexExtras(c, c.Pick(400_000, 8_000_000), func(s string) {
		CheckC14(c, s)
		if c.Res.Evals%50000 == 1 {
			c.Sample("lex", s, "")
		}
	})
}
