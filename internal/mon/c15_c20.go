package mon

import (
	"fmt"
	"strconv"
	"strings"
	"unicode/utf8"

	memefish "github.com/cloudspannerecosystem/memefish"
	"github.com/cloudspannerecosystem/memefish/token"

	"verif/internal/gen"
	"verif/internal/reflex"
)

// ---------------------------------------------------------------------------
// C15: quoting functions are right inverses of lexing

func identShaped(s string) bool {
	if s == "" {
		return false
	}
	for i := 0; i < len(s); i++ {
		c := s[i]
		ok := c == '_' || (c >= 'a' && c <= 'z') || (c >= 'A' && c <= 'Z') || (i > 0 && c >= '0' && c <= '9')
		if !ok {
			return false
		}
	}
	return true
}

// oneToken lexes q with memefish and the reference lexer and checks that both see exactly one token of the kind with value want.
func oneToken(c *Ctx, fn, s, q string, kind token.TokenKind, want string) {
	lr := Lex(q)
	if lr.Panic != nil {
		c.Violate("c15:"+fn+":lexer-panic", fn, s, fmt.Sprintf("%s(%q) = %q; lexer panics: %v", fn, s, q, lr.Panic))
		return
	}
	if lr.Err != nil {
		c.Violate("c15:"+fn+":not-lexable:"+errClass(lr.Err), fn, s, fmt.Sprintf("%s(%q) = %q does not lex: %v", fn, s, q, lr.Err))
		return
	}
	if len(lr.Tokens) != 2 || lr.Tokens[0].Kind != kind {
		var ks []string
		for _, t := range lr.Tokens {
			ks = append(ks, string(t.Kind))
		}
		c.Violate("c15:"+fn+":not-one-token", fn, s, fmt.Sprintf("%s(%q) = %q lexes as %v", fn, s, q, ks))
		return
	}
	if lr.Tokens[0].AsString != want {
		c.Violate("c15:"+fn+":value", fn, s, fmt.Sprintf("%s(%q) = %q decodes to %q", fn, s, q, lr.Tokens[0].AsString))
		return
	}
	if int(lr.Tokens[0].Pos) != 0 || int(lr.Tokens[0].End) != len(q) {
		c.Violate("c15:"+fn+":span", fn, s, fmt.Sprintf("%s(%q) = %q token spans %d..%d", fn, s, q, lr.Tokens[0].Pos, lr.Tokens[0].End))
		return
	}
	// the same under the reference lexer (spec view), when it has an opinion
	ref := reflex.Lex(q)
	switch ref.Status {
	case reflex.Unspecified:
		c.Count("ref_unspecified", 1)
	case reflex.Reject:
		c.Violate("c15:"+fn+":ref-reject", fn, s, fmt.Sprintf("%s(%q) = %q is rejected by the reference lexer: %s", fn, s, q, ref.Why))
	default:
		if len(ref.Toks) != 1 || ref.Toks[0].Kind != string(kind) || ref.Toks[0].Value != want {
			c.Violate("c15:"+fn+":ref-value", fn, s, fmt.Sprintf("%s(%q) = %q: reference lexer sees %+v", fn, s, q, ref.Toks))
		}
	}
}

// CheckC15 checks the three quoting functions on s.
func CheckC15(c *Ctx, s string) {
	c.Journal("quote", s)
	c.Eval()
	var qs, qb, qi string
	if pv, _ := callSUT(func() { qs = token.QuoteSQLString(s) }); pv != nil {
		c.Violate("c15:QuoteSQLString:panic", "QuoteSQLString", s, fmt.Sprint(pv))
	} else {
		oneToken(c, "QuoteSQLString", s, qs, token.TokenString, s)
	}
	if pv, _ := callSUT(func() { qb = token.QuoteSQLBytes([]byte(s)) }); pv != nil {
		c.Violate("c15:QuoteSQLBytes:panic", "QuoteSQLBytes", s, fmt.Sprint(pv))
	} else {
		oneToken(c, "QuoteSQLBytes", s, qb, token.TokenBytes, s)
	}
	if s != "" {
		if pv, _ := callSUT(func() { qi = token.QuoteSQLIdent(s) }); pv != nil {
			c.Violate("c15:QuoteSQLIdent:panic", "QuoteSQLIdent", s, fmt.Sprint(pv))
		} else {
			oneToken(c, "QuoteSQLIdent", s, qi, token.TokenIdent, s)
			if !strings.HasPrefix(qi, "`") {
				c.Count("ident_unquoted", 1)
				if !identShaped(s) || reflex.IsReserved(s) {
					c.Violate("c15:QuoteSQLIdent:unquoted", "QuoteSQLIdent", s, fmt.Sprintf("QuoteSQLIdent(%q) = %q is unquoted", s, qi))
				}
			} else {
				c.Count("ident_quoted", 1)
			}
		}
	}
}

func RunC15(c *Ctx) {
	ns := max(c.NShards, 1)
	idx := 0
	do := func(s string) {
		if idx%ns == c.Shard {
			CheckC15(c, s)
		}
		idx++
	}
	// exhaustive: all 1- and 2-byte strings
	for a := 0; a < 256; a++ {
		do(string([]byte{byte(a)}))
	}
	for a := 0; a < 256; a++ {
		for b := 0; b < 256; b++ {
			do(string([]byte{byte(a), byte(b)}))
		}
	}
	c.Res.Exhaustive["all_1_and_2_byte_strings"] = true
	// exhaustive: every Unicode code point (surrogates excluded: not encodable)
	for r := rune(0); r <= 0x10FFFF; r++ {
		if r >= 0xD800 && r <= 0xDFFF {
			continue
		}
		do(string(r))
	}
	c.Res.Exhaustive["all_code_points"] = true
	c.Count("distinct_enum", c.Res.Evals)
	// reserved words and identifier shapes
	for _, w := range reflex.ReservedWords {
		for _, s := range []string{w, strings.ToLower(w), w + "_", "_" + w, w + "1", strings.ToLower(w[:1]) + w[1:]} {
			do(s)
		}
	}
	// long values: a plain run of every length around powers of two and block sizes, with one special unit at the start,
	// right after the run, or at the very end (buffers, scan limits and fast paths decided on a prefix)
	for _, L := range []int{15, 16, 17, 31, 32, 33, 63, 64, 65, 127, 128, 129, 255, 256, 257, 511, 512, 513, 1000, 1023, 1024, 1025, 1100, 2047, 2048, 2049, 4095, 4096, 4097, 8192, 8193, 65535, 65536, 65537, 70001} {
		for _, fill := range []string{"a", "a b", "é"} {
			run := strings.Repeat(fill, L/len(fill)+1)[:L]
			if fill == "é" {
				run = strings.Repeat(fill, L/2)
			}
			for _, u := range []string{"", "\n", "\\", "'", "\"", "`", "\x00", "\xff", "'\"", "\r\n", "\u2028", "\ufffd", "?"} {
				do(run + u)
				do(u + run)
				do(run + u + run[:min(len(run), 40)])
			}
		}
	}
	c.Count("long_value_lengths", 35)
	// random longer strings, including invalid UTF-8, quotes, backslashes, controls
	r := gen.NewRand(c.Seed, 1500+uint64(c.Shard))
	n := c.Pick(300_000, 6_000_000) / ns
	for i := 0; i < n; i++ {
		var s string
		switch r.IntN(4) {
		case 0:
			s = gen.RandBytes(r, 24)
		case 1:
			// random valid runes
			var sb strings.Builder
			for k := 0; k < 1+r.IntN(8); k++ {
				switch r.IntN(4) {
				case 0:
					sb.WriteRune(rune(r.IntN(0x80)))
				case 1:
					sb.WriteRune(rune(0x80 + r.IntN(0x800)))
				case 2:
					x := rune(r.IntN(0x110000))
					if x >= 0xD800 && x <= 0xDFFF {
						x = 0xFFFD
					}
					sb.WriteRune(x)
				default:
					sb.WriteString([]string{"'", "\"", "`", "\\", "\n", "\r", "\t", "'''", "\"\"\"", "\\x", "\\n", "\x00", "\x7f"}[r.IntN(13)])
				}
			}
			s = sb.String()
		case 2:
			b := make([]byte, 1+r.IntN(12))
			for k := range b {
				b[k] = byte(r.IntN(256))
			}
			s = string(b)
		default:
			// identifier-ish
			var sb strings.Builder
			al := "abcXYZ_019 -.`$"
			for k := 0; k < 1+r.IntN(10); k++ {
				sb.WriteByte(al[r.IntN(len(al))])
			}
			s = sb.String()
		}
		CheckC15(c, s)
		c.Distinct(s)
		if i%40000 == 0 {
			c.Sample("quote", s, fmt.Sprintf("valid_utf8=%v", utf8.ValidString(s)))
		}
	}
	c.Sample("quote", "\xff'", "2-byte exhaustive member")
	c.Sample("quote", " ", "code point exhaustive member")
}

// ---------------------------------------------------------------------------
// C20: error positions resolve correctly

func refLineCol(buf string, pos int) (line, col int) {
	line = strings.Count(buf[:pos], "\n")
	col = pos - (strings.LastIndexByte(buf[:pos], '\n') + 1)
	return
}

// gutter splits an excerpt line "<blanks><digits><blanks><separator><text>" (separator one of | : >) into the line
// number and the text; ok is false for lines without a line-number gutter. The layout around the number is free.
func gutter(l string) (num int, text string, ok bool) {
	t := strings.TrimLeft(l, " \t")
	j := 0
	for j < len(t) && t[j] >= '0' && t[j] <= '9' {
		j++
	}
	if j == 0 {
		return 0, "", false
	}
	k := j
	for k < len(t) && (t[k] == ' ' || t[k] == '\t') {
		k++
	}
	if k >= len(t) || !(t[k] == '|' || t[k] == ':' || t[k] == '>') {
		return 0, "", false
	}
	n, _ := strconv.Atoi(t[:j])
	return n, t[k+1:], true
}

// numberedLines extracts (number, text) of the lines of an excerpt that start with a line number.
func numberedLines(src string) (nums []int, texts []string) {
	for _, l := range strings.Split(src, "\n") {
		if n, text, ok := gutter(l); ok {
			nums = append(nums, n)
			texts = append(texts, text)
		}
	}
	return
}

// unquotedContent returns the first line of an excerpt that is neither a numbered line nor a marker line
// (no letters, digits or non-ASCII bytes); "" if there is none.
func unquotedContent(src string) string {
	for _, l := range strings.Split(src, "\n") {
		if _, _, ok := gutter(l); ok {
			continue
		}
		// a marker line carries no letters, digits or non-ASCII bytes (whatever symbols the layout uses)
		marker := true
		for i := 0; i < len(l); i++ {
			ch := l[i]
			if ch >= 0x80 || (ch >= '0' && ch <= '9') || (ch >= 'a' && ch <= 'z') || (ch >= 'A' && ch <= 'Z') {
				marker = false
				break
			}
		}
		if marker {
			continue
		}
		return l
	}
	return ""
}

// CheckC20Text checks ResolvePos/Position for every pair 0<=p<=e<=len of buf (allPairs) or a sample of pairs.
func CheckC20Text(c *Ctx, buf string, pairs [][2]int) {
	c.Journal("position", buf)
	lines := strings.Split(buf, "\n")
	// one File shared by all pairs of this text, visited in an order that goes forwards and backwards
	shared := &token.File{FilePath: FilePath, Buffer: buf}
	order := make([]int, 0, 2*len(pairs))
	for i := range pairs {
		order = append(order, i)
	}
	for i := len(pairs) - 1; i >= 0; i-- {
		order = append(order, i)
	}
	for k := 0; k+1 < len(pairs); k += 2 {
		order = append(order, len(pairs)-1-k/2, k/2)
	}
	for _, oi := range order {
		pe := pairs[oi]
		p, e := pe[0], pe[1]
		c.Eval()
		var pos *token.Position
		var l1, c1 int
		pv, _ := callSUT(func() {
			f := &token.File{FilePath: FilePath, Buffer: buf}
			// alternate the order of calls so that the lazily built line table is exercised both ways
			if (p+e)%2 == 0 {
				l1, c1 = f.ResolvePos(token.Pos(p))
				pos = f.Position(token.Pos(p), token.Pos(e))
			} else {
				pos = f.Position(token.Pos(p), token.Pos(e))
				l1, c1 = f.ResolvePos(token.Pos(p))
			}
		})
		id := fmt.Sprintf("pos=%d end=%d", p, e)
		if pv != nil {
			c.Violate("c20:position-panic:"+PanicClass(pv), "position", buf, fmt.Sprintf("%s: panic %v", id, pv))
			continue
		}
		wl, wc := refLineCol(buf, p)
		el, ec := refLineCol(buf, e)
		if l1 != wl || c1 != wc {
			c.Violate("c20:resolvepos", "position", buf, fmt.Sprintf("%s: ResolvePos = (%d,%d), want (%d,%d)", id, l1, c1, wl, wc))
			continue
		}
		if pos == nil {
			c.Violate("c20:nil-position", "position", buf, id)
			continue
		}
		if pos.Line != wl || pos.Column != wc || pos.EndLine != el || pos.EndColumn != ec || int(pos.Pos) != p || int(pos.End) != e || pos.FilePath != FilePath {
			c.Violate("c20:position-fields", "position", buf, fmt.Sprintf("%s: Position = %d:%d-%d:%d [%d,%d], want %d:%d-%d:%d", id, pos.Line, pos.Column, pos.EndLine, pos.EndColumn, pos.Pos, pos.End, wl, wc, el, ec))
			continue
		}
		// the same File object serves many calls (as it does for the errors of one parse): positions going forwards and
		// backwards, jumping back to the start of a line after a later line
		{
			var l2, c2 int
			var pos2 *token.Position
			if pv, _ := callSUT(func() {
				pos2 = shared.Position(token.Pos(p), token.Pos(e))
				l2, c2 = shared.ResolvePos(token.Pos(p))
			}); pv != nil {
				c.Violate("c20:position-panic-shared-file:"+PanicClass(pv), "position", buf, fmt.Sprintf("%s on a File that already served other calls: panic %v", id, pv))
			} else if pos2 == nil || pos2.Line != wl || pos2.Column != wc || pos2.EndLine != el || pos2.EndColumn != ec || l2 != wl || c2 != wc || pos2.Source != pos.Source {
				c.Violate("c20:position-depends-on-earlier-calls", "position", buf, fmt.Sprintf("%s on a File that already served other calls: %+v (ResolvePos %d:%d), a fresh File gives %d:%d-%d:%d", id, pos2, l2, c2, wl, wc, el, ec))
			}
		}
		if want := fmt.Sprintf("%s:%d:%d", FilePath, wl+1, wc+1); pos.String() != want {
			c.Violate("c20:position-string", "position", buf, fmt.Sprintf("%s: String() = %q, want %q", id, pos.String(), want))
		}
		nums, texts := numberedLines(pos.Source)
		if extra := unquotedContent(pos.Source); extra != "" {
			c.Violate("c20:excerpt-extra-content", "position", buf, fmt.Sprintf("%s: the excerpt contains a line that is neither a numbered line of the range nor a marker line: %q; source=%q", id, extra, pos.Source))
			continue
		}
		if len(nums) != el-wl+1 {
			c.Violate("c20:excerpt-lines", "position", buf, fmt.Sprintf("%s: excerpt has %d numbered lines, want lines %d..%d; source=%q", id, len(nums), wl+1, el+1, pos.Source))
			continue
		}
		for k := range nums {
			if nums[k] != wl+1+k || !strings.HasSuffix(texts[k], lines[wl+k]) || len(texts[k]) > len(lines[wl+k])+4 {
				c.Violate("c20:excerpt-content", "position", buf, fmt.Sprintf("%s: excerpt line %d is %d|%q, want %d|%q", id, k, nums[k], texts[k], wl+1+k, lines[wl+k]))
				break
			}
		}
	}
}

func allPairs(n int) [][2]int {
	var ps [][2]int
	for p := 0; p <= n; p++ {
		for e := p; e <= n; e++ {
			ps = append(ps, [2]int{p, e})
		}
	}
	return ps
}

// CheckC20Error checks the message prefix of one error against its own Pos.
func CheckC20Error(c *Ctx, entry, input string, e *memefish.Error) {
	c.Eval()
	c.Count("errors_checked", 1)
	if e == nil || e.Position == nil {
		return // C09's domain
	}
	p := int(e.Position.Pos)
	if p < 0 || p > len(input) {
		return // C09's domain
	}
	wl, wc := refLineCol(input, p)
	want := fmt.Sprintf("syntax error: %s:%d:%d: ", FilePath, wl+1, wc+1)
	var msg string
	if pv, _ := callSUT(func() { msg = e.Error() }); pv != nil {
		c.Violate("c20:error-panic", entry, input, fmt.Sprint(pv))
		return
	}
	if !strings.HasPrefix(msg, want) {
		c.Violate("c20:error-prefix", entry, input, fmt.Sprintf("error at pos %d: message %q does not start with %q", p, msg, want))
	}
	if !strings.HasSuffix(msg, e.Message) {
		c.Violate("c20:error-message", entry, input, fmt.Sprintf("Error() %q does not end with Message %q", msg, e.Message))
	}
}

func RunC20(c *Ctx) {
	ns := max(c.NShards, 1)
	// exhaustive: texts up to L symbols over {a, \n, \r, é(2 bytes)} x all pairs
	alpha := []string{"a", "\n", "\r", "é"}
	L := c.Pick(6, 8)
	total := gen.EnumCountOver(len(alpha), L)
	idxbuf := make([]byte, 0, 8)
	sym := []byte{0, 1, 2, 3}
	for i := c.Shard; i < total; i += ns {
		idxbuf = gen.EnumStringOver(sym, i, idxbuf)
		var sb strings.Builder
		for _, k := range idxbuf {
			sb.WriteString(alpha[k])
		}
		buf := sb.String()
		CheckC20Text(c, buf, allPairs(len(buf)))
		c.Count("distinct_enum", 1)
	}
	c.Res.Exhaustive[fmt.Sprintf("texts<=%d_symbols_over_{a,LF,CR,é}_x_all_pairs", L)] = true
	// random multi-line texts
	r := gen.NewRand(c.Seed, 2000+uint64(c.Shard))
	n := c.Pick(20_000, 400_000) / ns
	for i := 0; i < n; i++ {
		var sb strings.Builder
		nl := r.IntN(12)
		for k := 0; k < nl; k++ {
			ll := r.IntN(20)
			if r.IntN(4) == 0 {
				ll = 0
			}
			for m := 0; m < ll; m++ {
				switch r.IntN(12) {
				case 0:
					sb.WriteString("é")
				case 1:
					sb.WriteString("\t")
				case 2:
					sb.WriteString("日本")
				case 3:
					sb.WriteByte(byte(0x80 + r.IntN(0x80)))
				default:
					sb.WriteByte(byte('a' + r.IntN(26)))
				}
			}
			switch r.IntN(6) {
			case 0:
				sb.WriteString("\r\n")
			case 1:
				if k == nl-1 {
					break
				}
				sb.WriteString("\n")
			default:
				sb.WriteString("\n")
			}
		}
		buf := sb.String()
		var pairs [][2]int
		if len(buf) <= 12 {
			pairs = allPairs(len(buf))
		} else {
			for k := 0; k < 24; k++ {
				p := r.IntN(len(buf) + 1)
				e := p + r.IntN(len(buf)+1-p)
				pairs = append(pairs, [2]int{p, e})
			}
			pairs = append(pairs, [2]int{0, len(buf)}, [2]int{len(buf), len(buf)}, [2]int{0, 0})
		}
		CheckC20Text(c, buf, pairs)
		c.Distinct(buf)
		if i%5000 == 0 {
			c.Sample("position", buf, fmt.Sprintf("%d pairs", len(pairs)))
		}
	}
	// many-line texts: every position's line/column, and Position for a sample of pairs (line-table search code)
	maxLines := c.Pick(400, 3000)
	for L := 1 + c.Shard; L <= maxLines; L += ns {
		var sb strings.Builder
		for k := 0; k < L; k++ {
			for m := 0; m < (k*7+L)%6; m++ {
				sb.WriteByte(byte('a' + (k+m)%26))
			}
			if k < L-1 || L%2 == 0 {
				sb.WriteByte('\n')
			}
		}
		buf := sb.String()
		c.Journal("position", buf)
		var bad string
		pv, _ := callSUT(func() {
			f := &token.File{FilePath: FilePath, Buffer: buf}
			line, lineStart := 0, 0
			for p := 0; p <= len(buf); p++ {
				l, col := f.ResolvePos(token.Pos(p))
				if l != line || col != p-lineStart {
					bad = fmt.Sprintf("text with %d lines, pos=%d: ResolvePos = (%d,%d), want (%d,%d)", L, p, l, col, line, p-lineStart)
					return
				}
				if p < len(buf) && buf[p] == '\n' {
					line++
					lineStart = p + 1
				}
			}
		})
		c.Eval()
		c.Count("long_texts", 1)
		if pv != nil {
			c.Violate("c20:resolvepos-panic", "position", buf, fmt.Sprintf("text with %d lines: %v", L, pv))
		} else if bad != "" {
			c.Violate("c20:resolvepos", "position", buf, bad)
		}
		var pairs [][2]int
		for k := 0; k < 16; k++ {
			p := r.IntN(len(buf) + 1)
			e := p + r.IntN(min(len(buf)+1-p, 40))
			pairs = append(pairs, [2]int{p, e})
		}
		CheckC20Text(c, buf, pairs)
	}
	// ranges that cross a digit-count boundary of the line numbers (9|10, 99|100, 999|1000, 9999|10000)
	if c.Shard == 0 {
		buf := strings.Repeat("ab\n", 10010)
		var pairs [][2]int
		for _, b := range []int{9, 10, 99, 100, 999, 1000, 9999, 10000} {
			for _, d := range []int{-2, -1, 0, 1} {
				for _, span := range []int{1, 2, 5} {
					l := b + d
					if l < 0 {
						continue
					}
					pairs = append(pairs, [2]int{l * 3, (l+span)*3 + 1})
				}
			}
		}
		CheckC20Text(c, buf, pairs)
		c.Count("digit_boundary_ranges", int64(len(pairs)))
	}
	// the file path is caller data: hostile paths x error inputs x every entry point, and Position.String()
	errs := 0
	if c.Shard == 0 {
		old := FilePath
		for _, path := range c20Paths {
			FilePath = path
			c.tagEntry = "path=" + strconv.Quote(path) + " "
			for _, in := range []string{"", "SELECT", "SELECT 1 +", "\n\n  'x", "a\nb\nc )", "/*", "CREATE TABLE t (\n a INT64,\n b )", "DELETE", "1 + * 2; x", "SELECT 1;\nSELECT $"} {
				for _, e := range allEntriesPlus {
					errs += c20ErrorCase(c, e, in)
				}
			}
			CheckC20Text(c, "ab\ncd\n\nef", allPairs(9))
			c.Count("file_paths", 1)
		}
		FilePath = old
		c.tagEntry = ""
	}
	errorWorkload(c, c.Pick(30_000, 600_000), func(entry, input string) {
		errs += c20ErrorCase(c, entry, input)
	})
	c.Count("errors_total", int64(errs))
}

// c20Paths are file paths that a formatting routine could mistake for something else.
var c20Paths = []string{"", "a.sql", "100%.sql", "%s", "%d:%d", "%!s(int=3)", "%%", "dir/with space/q.sql", "C:\\x\\y.sql", "a:1:1", "q.sql:", "\u65e5\u672c.sql", "a\nb.sql", "\"quoted\".sql", "{0}", "$1", "\\n", "%v%v%v%v", strings.Repeat("p/", 100) + "x.sql"}

// c20ErrorCase runs one (entry, input) case and checks every error it produces.
func c20ErrorCase(c *Ctx, entry, input string) (errs int) {
	c.Journal(entry, input)
	switch entry {
	case "lex":
		lr := Lex(input)
		if e, ok := lr.Err.(*memefish.Error); ok && lr.Panic == nil {
			CheckC20Error(c, entry, input, e)
			errs++
		}
	case "split":
		var err error
		pv, _ := callSUT(func() { _, err = memefish.SplitRawStatements(FilePath, input) })
		if e, ok := err.(*memefish.Error); ok && pv == nil {
			CheckC20Error(c, entry, input, e)
			errs++
		}
	default:
		p := Parse(entry, input)
		if p.Panic != nil {
			return
		}
		if me, ok := p.Err.(memefish.MultiError); ok {
			for _, e := range me {
				CheckC20Error(c, entry, input, e)
				errs++
			}
			if len(me) > 0 && me[0] != nil {
				c.Distinct(entry + "|" + me[0].Message)
			}
		}
	}
	return
}
