package mon

import (
	"bufio"
	"os"
	"path/filepath"
	"sort"
	"strconv"
	"strings"

	memefish "github.com/cloudspannerecosystem/memefish"

	"verif/internal/gen"
)

// ErrSite is one representative input of an error site: a distinct (entry point, message shape) pair.
type ErrSite struct {
	Entry, Input, Shape string
}

// HarvestErrorSites runs the broad error workloads in this process and keeps the shortest input seen for every distinct
// (entry, message shape). The result is workload data (tools/harvest writes it to errsites.tsv); nothing in it is an
// expectation.
func HarvestErrorSites(c *Ctx) []ErrSite {
	best := map[string]ErrSite{}
	see := func(entry, input string) {
		if entry == "lex" || entry == "split" || len(input) > 400 {
			return
		}
		p := Parse(entry, input)
		me, ok := p.Err.(memefish.MultiError)
		if p.Panic != nil || !ok {
			return
		}
		for _, e := range me {
			if e == nil {
				continue
			}
			sh := msgShape(e.Message)
			key := entry + "|" + sh
			if old, ok := best[key]; !ok || len(input) < len(old.Input) {
				best[key] = ErrSite{entry, input, sh}
			}
		}
	}
	treeWorkload(c, 80_000, 30_000, see)
	errorWorkload(c, 300_000, see)
	for _, pr := range ScopeProbes {
		see(pr.Entry, pr.Text)
	}
	for _, s := range qualifiedSpecialForms() {
		see("expr", s)
	}
	for _, cc := range c.Corpus() {
		ents := cc.Entries()
		gen.PhraseInsertions(cc.Text, func(m string) { see(ents[0], m) })
		gen.SystematicMoves(cc.Text, func(m string) { see(ents[0], m) })
	}
	for _, e := range allEntriesPlus {
		for _, s := range []string{"", ";", "FROM t ORDER BY a", "FROM t LIMIT 1", "SELECT", "(", ")", "1 +", "a b c"} {
			see(e, s)
		}
	}
	var out []ErrSite
	for _, v := range best {
		out = append(out, v)
	}
	sort.Slice(out, func(i, j int) bool {
		if out[i].Entry != out[j].Entry {
			return out[i].Entry < out[j].Entry
		}
		return out[i].Shape < out[j].Shape
	})
	return out
}

// WriteErrSites / LoadErrSites: errsites.tsv in the verif directory, one site per line.
func WriteErrSites(path string, sites []ErrSite) error {
	var sb strings.Builder
	for _, s := range sites {
		sb.WriteString(s.Entry + "\t" + strconv.Quote(s.Input) + "\t" + strconv.Quote(s.Shape) + "\n")
	}
	return os.WriteFile(path, []byte(sb.String()), 0o644)
}

func LoadErrSites() []ErrSite {
	f, err := os.Open(filepath.Join(VerifDir, "errsites.tsv"))
	if err != nil {
		return nil
	}
	defer f.Close()
	var out []ErrSite
	sc := bufio.NewScanner(f)
	sc.Buffer(make([]byte, 1<<20), 1<<20)
	for sc.Scan() {
		parts := strings.Split(sc.Text(), "\t")
		if len(parts) != 3 {
			continue
		}
		in, err1 := strconv.Unquote(parts[1])
		sh, err2 := strconv.Unquote(parts[2])
		if err1 != nil || err2 != nil {
			continue
		}
		out = append(out, ErrSite{parts[0], in, sh})
	}
	return out
}
