package mon

import (
	"fmt"
	"sort"
	"strings"

	memefish "github.com/cloudspannerecosystem/memefish"
	"github.com/cloudspannerecosystem/memefish/ast"
	"github.com/cloudspannerecosystem/memefish/token"

	"verif/internal/astx"
	"verif/internal/gen"
)

// ExtraSentences is set by the grammar package glue: it yields generated sentences
// (entry, text) for the tree workloads. nil until grammar G is linked in.
var ExtraSentences func(c *Ctx, n int, f func(entry, input string))

var typeSeeds = []string{
	"BOOL", "INT64", "FLOAT32", "FLOAT64", "DATE", "TIMESTAMP", "NUMERIC", "STRING", "BYTES", "JSON", "TOKENLIST", "int64", "String",
	"ARRAY<INT64>", "ARRAY<ARRAY<INT64>>", "ARRAY<STRUCT<a INT64, b STRING>>", "STRUCT<>", "STRUCT<INT64>", "STRUCT<a INT64>", "STRUCT<a INT64, STRING>",
	"STRUCT<a ARRAY<INT64>>", "STRUCT<a STRUCT<b STRUCT<c INT64>>>", "ARRAY<STRUCT<a ARRAY<STRUCT<b INT64>>>>", "a.b.c", "foo", "`a b`.c", "ARRAY<a.b>", "STRUCT<x a.b, y ARRAY<c>>",
	"ARRAY< INT64 >", "STRUCT < a INT64 , b STRUCT < > >", "array<struct<a int64>>",
	"ARRAY<STRUCT< >>", "STRUCT<a INT64, b STRUCT< >>", "ARRAY<STRUCT</* c */>>", "ARRAY<STRUCT<\n>>", "ARRAY<ARRAY<STRUCT< >>>", "ARRAY<STRUCT<>>", "ARRAY<STRUCT< > >", "STRUCT<STRUCT<>>", "STRUCT<a STRUCT< >, b INT64>",
	"ARRAY<ARRAY<INT64> >", "ARRAY<ARRAY<INT64 >>", "ARRAY<ARRAY<INT64/*c*/>>", "ARRAY<ARRAY<INT64>/*c*/>",
}

// treeWorkload yields (entry, input) cases for the tree properties: the corpus (clean and bad) under its entries,
// type seeds, nesting families at small depth, generated sentences (when linked), and token mutants.
// nMut is the number of mutants, nGen of generated sentences.
func treeWorkload(c *Ctx, nMut, nGen int, f func(entry, input string)) {
	corpusWorkload(c, true, func(entry string, cc gen.CorpusCase) {
		f(entry, cc.Text)
		if le := ListOf(entry); le != "" {
			f(le, cc.Text)
		}
	})
	idx := 0
	for _, s := range typeSeeds {
		if c.Mine(idx) {
			f("type", s)
		}
		idx++
	}
	for _, fam := range gen.NestFamilies {
		for _, d := range []int{1, 2, 5, 17} {
			for _, closed := range []bool{true, false} {
				if c.Mine(idx) {
					f(fam.Entry, fam.Make(d, closed))
				}
				idx++
			}
		}
	}
	// wide inputs (one list with n elements) and very long tokens: shapes that limits, pools and caches are sensitive to
	widths := []int{300, 3000, 12000, 40000}
	if c.Thorough() {
		widths = append(widths, 120000)
	}
	for _, fam := range gen.WideFamilies {
		for _, n := range widths {
			if c.Mine(idx) {
				f(fam.Entry, fam.Make(n))
				c.Count("wide_inputs", 1)
			}
			idx++
		}
	}
	for _, fam := range gen.WideBrokenFamilies {
		for _, n := range []int{7, 99, 100, 101, 150, 1500} {
			if c.Mine(idx) {
				f(fam.Entry, fam.Make(n))
				c.Count("wide_broken_inputs", 1)
			}
			idx++
		}
	}
	// wide x deep: a list of w elements whose k-th element is one deep subtree
	for _, fam := range gen.WideDeepFamilies {
		for _, w := range []int{129, 300, 1200} {
			for kind, ds := range [][]int{{130, 300, 1100}, {130, 300, 500}, {130, 500}} {
				for _, d := range ds {
					for _, k := range []int{0, w / 2, w - 2, w - 1} {
						if c.Mine(idx) {
							f(fam.Entry, fam.Make(w, k, gen.DeepExpr(kind, d)))
							c.Count("wide_deep_inputs", 1)
						}
						idx++
					}
				}
			}
		}
	}
	openThenBroken(c, &idx, f)
	for _, ll := range gen.LongLiterals() {
		if c.Mine(idx) {
			f(ll.Entry, ll.Text)
			// a short one right after a long one (pooled buffers)
			f("expr", "'short'")
			c.Count("long_token_inputs", 1)
		}
		idx++
	}
	// systematic single-token edits of every corpus file: each token deleted, a comma inserted before each token
	if nMut > 0 {
		for _, cc := range c.Corpus() {
			if c.Mine(idx) {
				ents := cc.Entries()
				gen.SystematicEdits(cc.Text, func(m string) {
					f(ents[0], m)
					c.Count("systematic_edits", 1)
				})
			}
			idx++
		}
	}
	if ExtraSentences != nil && nGen > 0 {
		ExtraSentences(c, nGen, f)
	}
	if ExtraSentences != nil && nMut > 0 {
		nearMissWorkload(c, f)
	}
	if nMut > 0 {
		errorWorkload(c, nMut, func(entry, input string) {
			if entry == "lex" || entry == "split" {
				entry = "statements"
			}
			f(entry, input)
		})
	}
}

func lexBoundaries(input string) (starts, ends map[int]bool, ok bool) {
	lr := Lex(input)
	if lr.Panic != nil || lr.Err != nil {
		return nil, nil, false
	}
	starts, ends = map[int]bool{}, map[int]bool{}
	for _, t := range lr.Tokens {
		if t.Kind == token.TokenEOF {
			continue
		}
		starts[int(t.Pos)] = true
		ends[int(t.End)] = true
		if t.Kind == ">>" || t.Kind == "<>" {
			// the parser legitimately splits these tokens
			starts[int(t.Pos)+1] = true
			ends[int(t.Pos)+1] = true
		}
	}
	return starts, ends, true
}

// ---------------------------------------------------------------------------
// C04: SQL/Pos/End/Walk total on every returned AST

type methodPanics struct {
	sql, pos, end bool
}

// CheckC04 observes one case.
func CheckC04(c *Ctx, entry, input string) {
	c.Journal(entry, input)
	p := Parse(entry, input)
	c.Eval()
	if p.Panic != nil {
		c.Count("parse_panics_left_to_C03", 1)
		return
	}
	if p.Err != nil {
		c.Count("trees_with_error", 1)
	} else {
		c.Count("trees_clean", 1)
	}
	for _, root := range p.Roots {
		if astx.IsNilNode(root) {
			continue
		}
		infos := astx.Nodes(root)
		c.Count("nodes", int64(len(infos)))
		bad := make([]methodPanics, len(infos))
		var pvs = make([][3]any, len(infos))
		for i, in := range infos {
			c.SetAdd("node_types", astx.TypeName(in.Node))
			if in.TypedNil {
				c.Violate("c04:typed-nil:"+in.Slot.String(), entry, input, fmt.Sprintf("slot %s holds a typed nil %T", in.Slot, in.Node))
				bad[i] = methodPanics{true, true, true}
				continue
			}
			if _, pv := SQLOf(in.Node); pv != nil {
				bad[i].sql = true
				pvs[i][0] = pv
			}
			if _, pv := PosOf(in.Node); pv != nil {
				bad[i].pos = true
				pvs[i][1] = pv
			}
			if _, pv := EndOf(in.Node); pv != nil {
				bad[i].end = true
				pvs[i][2] = pv
			}
			noteOperand(c, infos, i)
		}
		// root cause: a node whose method panics while none of its children's does
		childBad := make([]methodPanics, len(infos))
		for i := len(infos) - 1; i >= 1; i-- {
			pi := infos[i].Parent
			childBad[pi].sql = childBad[pi].sql || bad[i].sql || childBad[i].sql
			childBad[pi].pos = childBad[pi].pos || bad[i].pos || childBad[i].pos
			childBad[pi].end = childBad[pi].end || bad[i].end || childBad[i].end
		}
		for i, in := range infos {
			if in.TypedNil {
				continue
			}
			tn := astx.TypeName(in.Node)
			if bad[i].sql && !childBad[i].sql {
				c.Violate("c04:panic:SQL:"+tn+":"+PanicClass(pvs[i][0]), entry, input, fmt.Sprintf("%s.SQL() panics: %v (slot %s)", tn, pvs[i][0], in.Slot))
			}
			if bad[i].pos && !childBad[i].pos {
				c.Violate("c04:panic:Pos:"+tn+":"+PanicClass(pvs[i][1]), entry, input, fmt.Sprintf("%s.Pos() panics: %v (slot %s)", tn, pvs[i][1], in.Slot))
			}
			if bad[i].end && !childBad[i].end {
				c.Violate("c04:panic:End:"+tn+":"+PanicClass(pvs[i][2]), entry, input, fmt.Sprintf("%s.End() panics: %v (slot %s)", tn, pvs[i][2], in.Slot))
			}
		}
		// traversals
		visited := 0
		if pv, _ := callSUT(func() { ast.Inspect(root, func(n ast.Node) bool { visited++; return true }) }); pv != nil {
			c.Violate("c04:panic:Inspect:"+PanicClass(pv), entry, input, fmt.Sprintf("Inspect panics after %d nodes: %v", visited, pv))
		}
		if pv, _ := callSUT(func() {
			for range ast.Preorder(root) {
			}
		}); pv != nil {
			c.Violate("c04:panic:Preorder:"+PanicClass(pv), entry, input, fmt.Sprintf("Preorder panics: %v", pv))
		}
		if pv, _ := callSUT(func() { ast.Walk(root, nopVisitor{}) }); pv != nil {
			c.Violate("c04:panic:Walk:"+PanicClass(pv), entry, input, fmt.Sprintf("Walk panics: %v", pv))
		}
		// early stops: a consumer that leaves the loop (or prunes) after k nodes must not make the traversal panic
		for _, cut := range earlyCuts(visited, nil) {
			if pv, _ := callSUT(func() {
				k := 0
				for range ast.Preorder(root) {
					k++
					if k >= cut {
						break
					}
				}
				k = 0
				ast.Inspect(root, func(ast.Node) bool { k++; return k < cut })
			}); pv != nil {
				c.Violate("c04:panic:Preorder-early-stop:"+PanicClass(pv), entry, input, fmt.Sprintf("Preorder / Inspect stopped after %d of %d nodes panics: %v", cut, visited, pv))
				break
			}
		}
		if has, _ := astx.HasBad(infos); has {
			c.Count("trees_with_bad_nodes", 1)
			for _, in := range infos {
				switch in.Node.(type) {
				case *ast.BadStatement, *ast.BadQueryExpr, *ast.BadExpr, *ast.BadType, *ast.BadDDL, *ast.BadDML:
					c.SetAdd("bad_kinds", astx.TypeName(in.Node))
				}
			}
		}
	}
	if IsListEntry(entry) && len(p.Roots) > 0 {
		ok := true
		for _, r := range p.Roots {
			if astx.IsNilNode(r) {
				ok = false
			}
		}
		if ok {
			if pv, _ := callSUT(func() {
				ast.WalkMany(p.Roots, nopVisitor{})
				ast.InspectMany(p.Roots, func(ast.Node) bool { return true })
				for range ast.PreorderMany(p.Roots) {
				}
			}); pv != nil {
				c.Violate("c04:panic:WalkMany:"+PanicClass(pv), entry, input, fmt.Sprintf("*Many traversal panics: %v", pv))
			}
			// early stops of the *Many variants: in every root, at every root boundary, and in between
			var bounds []int
			total := 0
			for _, r := range p.Roots {
				n := 0
				if pv, _ := callSUT(func() { ast.Inspect(r, func(ast.Node) bool { n++; return true }) }); pv != nil {
					break
				}
				total += n
				bounds = append(bounds, total)
			}
			for _, cut := range earlyCuts(total, bounds) {
				if pv, _ := callSUT(func() {
					k := 0
					for range ast.PreorderMany(p.Roots) {
						k++
						if k >= cut {
							break
						}
					}
					k = 0
					ast.InspectMany(p.Roots, func(ast.Node) bool { k++; return k < cut })
				}); pv != nil {
					c.Violate("c04:panic:PreorderMany-early-stop:"+PanicClass(pv), entry, input, fmt.Sprintf("PreorderMany / InspectMany over %d roots stopped after %d of %d nodes panics: %v", len(p.Roots), cut, total, pv))
					break
				}
				c.Count("many_early_stops", 1)
			}
		}
	}
}

// earlyCuts returns the stop points (1-based number of nodes consumed) to try for a traversal of n nodes: the first
// two, the middle, the last two, and around every given boundary (cumulative node counts of the roots), at most 14.
func earlyCuts(n int, bounds []int) []int {
	seen := map[int]bool{}
	var out []int
	add := func(k int) {
		if k >= 1 && k <= n && !seen[k] && len(out) < 14 {
			seen[k] = true
			out = append(out, k)
		}
	}
	add(1)
	add(2)
	add(n / 2)
	add(n - 1)
	add(n)
	for i, b := range bounds {
		if i >= 3 {
			break
		}
		add(b - 1)
		add(b)
		add(b + 1)
	}
	return out
}

type nopVisitor struct{}

func (nopVisitor) Visit(ast.Node) ast.Visitor       { return nopVisitor{} }
func (nopVisitor) VisitMany([]ast.Node) ast.Visitor { return nopVisitor{} }
func (nopVisitor) Field(string) ast.Visitor         { return nopVisitor{} }
func (nopVisitor) Index(int) ast.Visitor            { return nopVisitor{} }

// noteOperand records which Expr implementers were observed as operands of binary / unary / postfix operators.
func noteOperand(c *Ctx, infos []astx.Info, i int) {
	in := infos[i]
	if in.Parent < 0 {
		return
	}
	if _, ok := in.Node.(ast.Expr); !ok {
		return
	}
	tn := astx.TypeName(in.Node)
	switch infos[in.Parent].Node.(type) {
	case *ast.BinaryExpr:
		c.SetAdd("operand_of_binary", tn)
	case *ast.UnaryExpr:
		c.SetAdd("operand_of_unary", tn)
	case *ast.SelectorExpr, *ast.IndexExpr:
		if in.Slot.Field == "Expr" {
			c.SetAdd("operand_of_postfix", tn)
		}
	case *ast.InExpr, *ast.BetweenExpr, *ast.IsNullExpr, *ast.IsBoolExpr:
		c.SetAdd("operand_of_comparison", tn)
	}
}

func RunC04(c *Ctx) {
	n := 0
	treeWorkload(c, c.Pick(150_000, 3_000_000), c.Pick(30_000, 600_000), func(entry, input string) {
		CheckC04(c, entry, input)
		c.Distinct(entry + "\x00" + input)
		n++
		if n%20000 == 1 {
			c.Sample(entry, input, "")
		}
	})
	// operand matrix: every primary-expression form as operand of binary, unary, postfix and comparison operators
	idx := 0
	for _, a := range exprAtoms {
		for _, ctxt := range []string{"%s + 1", "1 + %s", "- %s", "NOT %s", "%s.f", "%s[0]", "%s IS NULL", "%s IN (1)", "%s BETWEEN 1 AND 2", "1 BETWEEN %s AND %s", "%s LIKE 'a'", "%s || %s", "~%s", "%s[OFFSET(%s)]", "(%s).x", "%s = %s", "1 + ", "%s +", "f(%s,", "CASE %s WHEN"} {
			if c.Mine(idx) {
				s := strings.ReplaceAll(ctxt, "%s", a)
				CheckC04(c, "expr", s)
				CheckC04(c, "statement", "SELECT "+s)
			}
			idx++
		}
	}
}

// exprAtoms are primary-expression forms (one per Expr implementer that is not an operator node).
var exprAtoms = []string{
	"a", "a.b", "@p", "1", "0x1F", "1.5", "'s'", "b'b'", "NULL", "TRUE", "FALSE", "DATE '2020-01-01'", "TIMESTAMP '2020-01-01 00:00:00'", "NUMERIC '1'", "JSON '{}'",
	"[1, 2]", "ARRAY<INT64>[1]", "ARRAY[1]", "(1, 2)", "STRUCT(1, 2)", "STRUCT(1 AS a)", "STRUCT<a INT64>(1)", "STRUCT<>()", "f(1)", "f()", "a.b.f(1)", "COUNT(*)", "CAST(1 AS INT64)", "SAFE_CAST(1 AS STRING)",
	"EXTRACT(DAY FROM d)", "EXTRACT(DAY FROM d AT TIME ZONE 'UTC')", "CASE WHEN a THEN 1 END", "CASE a WHEN 1 THEN 2 ELSE 3 END", "IF(a, 1, 2)", "(1)", "(SELECT 1)", "ARRAY(SELECT 1)", "EXISTS(SELECT 1)",
	"WITH(a AS 1, a)", "REPLACE_FIELDS(a, 1 AS b)", "NEW T(1)", "NEW a.b.T(1 AS x)", "NEW T {a: 1}", "NEW T {a {b: 1}}", "{a: 1}", "{a {b: 1} c: 2}", "a[0]", "a.b[OFFSET(1)]", "a[SAFE_ORDINAL(1)]",
	"f(x -> x + 1)", "f((x, y) -> x)", "f(a => 1)", "f(DISTINCT a)", "f(a IGNORE NULLS)", "f(a HAVING MAX b)", "f(INTERVAL 1 DAY)", "f(SEQUENCE s)", "f(1) @{a=1}", "- 1", "-a", "NOT a", "~a", "+a",
	"a IS NULL", "a IS NOT TRUE", "a IN (1, 2)", "a NOT IN UNNEST(b)", "a IN (SELECT 1)", "a BETWEEN 1 AND 2", "a NOT LIKE 'x'", "a AND b", "a OR b", "a = b", "a || b", "a << 1",
}

// ---------------------------------------------------------------------------
// C05: node positions are sound

type posInfo struct {
	pos, end int
	ok       bool // Pos/End did not panic
	rangeBad bool
	posMis   bool
	endMis   bool
}

// CheckC05 observes one case. It returns the parse for reuse.
func CheckC05(c *Ctx, entry, input string) *Parsed {
	// entries "qpkw:<entry>" belong to the back-quoted pseudo-keyword sub-workload: same check, tagged signatures
	if strings.HasPrefix(entry, "qpkw:") {
		c.SigTag = "qpkw"
		defer func() { c.SigTag = "" }()
	}
	c.Journal(entry, input)
	p := Parse(strings.TrimPrefix(entry, "qpkw:"), input)
	c.Eval()
	if p.Panic != nil {
		c.Count("parse_panics_left_to_C03", 1)
		return p
	}
	clean := p.Err == nil
	var starts, ends map[int]bool
	aligned := false
	// token boundaries are computed whenever the input lexes; misalignment is *reported* only for clean parses,
	// but it is used for root-cause attribution in error trees too (a bound inherited from a misaligned node)
	starts, ends, aligned = lexBoundaries(input)
	if clean {
		c.Count("trees_clean", 1)
	} else {
		c.Count("trees_with_error", 1)
	}
	for _, root := range p.Roots {
		if astx.IsNilNode(root) {
			continue
		}
		infos := astx.Nodes(root)
		checkPositions(c, entry, input, infos, clean, aligned, starts, ends)
	}
	return p
}

func checkPositions(c *Ctx, entry, input string, infos []astx.Info, clean, aligned bool, starts, ends map[int]bool) {
	n := len(input)
	pi := make([]posInfo, len(infos))
	c.Count("nodes", int64(len(infos)))
	for i, in := range infos {
		if in.TypedNil {
			continue
		}
		ps, pv1 := PosOf(in.Node)
		es, pv2 := EndOf(in.Node)
		if pv1 != nil || pv2 != nil {
			c.Count("pos_panics_left_to_C04", 1)
			continue
		}
		q := &pi[i]
		q.ok = true
		q.pos, q.end = int(ps), int(es)
		if clean {
			q.rangeBad = !(0 <= q.pos && q.pos < q.end && q.end <= n)
		} else {
			q.rangeBad = !(0 <= q.pos && q.pos <= q.end && q.end <= n)
		}
		if aligned && !q.rangeBad {
			q.posMis = !starts[q.pos]
			q.endMis = !ends[q.end]
		}
	}
	tn := func(i int) string { return astx.TypeName(infos[i].Node) }
	// children lists
	children := make([][]int, len(infos))
	for i := 1; i < len(infos); i++ {
		if infos[i].Parent >= 0 {
			children[infos[i].Parent] = append(children[infos[i].Parent], i)
		}
	}
	explainedBy := func(i int, f func(ch int) bool) bool {
		for _, ch := range children[i] {
			if pi[ch].ok && f(ch) {
				return true
			}
		}
		return false
	}
	for i := range infos {
		q := pi[i]
		if !q.ok {
			continue
		}
		id := fmt.Sprintf("%s [%d,%d) in slot %s", tn(i), q.pos, q.end, infos[i].Slot)
		if q.rangeBad {
			// explained by a child with the same bad bound
			if !explainedBy(i, func(ch int) bool {
				return pi[ch].rangeBad && (pi[ch].end == q.end || pi[ch].pos == q.pos)
			}) {
				c.Violate("c05:range:"+tn(i), entry, input, fmt.Sprintf("%s: violates 0 <= Pos %s End <= %d", id, map[bool]string{true: "<", false: "<="}[clean], n))
			}
			continue
		}
		if clean && q.posMis && !explainedBy(i, func(ch int) bool { return pi[ch].posMis && pi[ch].pos == q.pos }) {
			c.Violate("c05:pos-align:"+tn(i), entry, input, fmt.Sprintf("%s: Pos is not the first byte of a token (%q)", id, ctxAt(input, q.pos)))
		}
		if clean && q.endMis && !explainedBy(i, func(ch int) bool { return pi[ch].endMis && pi[ch].end == q.end }) {
			c.Violate("c05:end-align:"+tn(i), entry, input, fmt.Sprintf("%s: End is not one past the last byte of a token (%q)", id, ctxAt(input, q.end)))
		}
		// nesting and order of children
		prevEnd, prevIdx := -1, -1
		_, isCreateTable := infos[i].Node.(*ast.CreateTable)
		for _, ch := range children[i] {
			cq := pi[ch]
			if !cq.ok || cq.rangeBad {
				continue
			}
			if cq.pos < q.pos || cq.end > q.end {
				// attribute to the child if it is itself misaligned, otherwise to the parent
				if cq.posMis || cq.endMis {
					continue
				}
				c.Violate("c05:contain:"+tn(i)+"."+infos[ch].Slot.Field, entry, input, fmt.Sprintf("%s does not contain its child %s [%d,%d)", id, tn(ch), cq.pos, cq.end))
				continue
			}
			if !isCreateTable {
				if prevIdx >= 0 && cq.pos < prevEnd {
					if !(pi[prevIdx].endMis || cq.posMis) {
						c.Violate("c05:order:"+tn(i)+"."+infos[ch].Slot.Field, entry, input, fmt.Sprintf("%s: child %s [%d,%d) in %s starts before the end %d of the previous child %s", id, tn(ch), cq.pos, cq.end, infos[ch].Slot, prevEnd, tn(prevIdx)))
					}
				}
			}
			if cq.end > prevEnd {
				prevEnd, prevIdx = cq.end, ch
			}
		}
	}
}

func ctxAt(s string, i int) string {
	a, b := i-8, i+8
	if a < 0 {
		a = 0
	}
	if b > len(s) {
		b = len(s)
	}
	if i < 0 || i > len(s) {
		return "<out of range>"
	}
	return s[a:i] + "⟦" + s[i:b]
}

func RunC05(c *Ctx) {
	n := 0
	// sub-workload: back-quoted pseudo-keywords (signatures carry the word, see KNOWN_FINDINGS K4)
	quotedPKWWorkload(c, func(entry, input, word string) {
		CheckC05(c, "qpkw:"+entry, input)
	})
	// same sub-workload: every word of every corpus file and of every sentence of the systematic set back-quoted in place
	{
		idx := 0
		for _, cc := range c.Corpus() {
			if c.Mine(idx) {
				ents := cc.Entries()
				gen.QuoteWordEdits(cc.Text, func(m string) {
					CheckC05(c, "qpkw:"+ents[0], m)
					c.Count("quoted_word_edits", 1)
				})
			}
			idx++
		}
		set, _, _ := gen.SystematicSet()
		rr := gen.NewRand(1, 77)
		for _, s := range set {
			if c.Mine(idx) {
				gen.QuoteWordEdits(gen.Render(rr, s, gen.RenderOpts{}), func(m string) {
					CheckC05(c, "qpkw:"+s.Entry, m)
					c.Count("quoted_word_edits", 1)
				})
			}
			idx++
		}
	}
	operandMatrix(c, func(entry, input string) { CheckC05(c, entry, input) })
	treeWorkload(c, c.Pick(150_000, 3_000_000), c.Pick(40_000, 800_000), func(entry, input string) {
		p := CheckC05(c, entry, input)
		if p.OK() {
			c.Distinct(entry + "\x00" + input)
		}
		n++
		if n%20000 == 1 {
			c.Sample(entry, input, "")
		}
	})
}

// ---------------------------------------------------------------------------
// C09: error contract

func CheckC09(c *Ctx, entry, input string) {
	c.Journal(entry, input)
	p := Parse(entry, input)
	c.Eval()
	if p.Panic != nil {
		c.Count("parse_panics_left_to_C03", 1)
		return
	}
	anyBad, badNodes := false, 0
	for _, root := range p.Roots {
		if astx.IsNilNode(root) {
			continue
		}
		b, k := astx.HasBad(astx.Nodes(root))
		anyBad = anyBad || b
		badNodes += k
	}
	if p.Err == nil {
		c.Count("clean", 1)
		if anyBad {
			c.Violate("c09:bad-node-without-error", entry, input, fmt.Sprintf("nil error but the tree contains %d BadNode placeholders", badNodes))
		}
		// active probe: remaining input must be an error
		probe := input + "\n)"
		c.Journal(entry, probe)
		p2 := Parse(entry, probe)
		if p2.Panic == nil && p2.Err == nil {
			c.Violate("c09:trailing-input-accepted", entry, input, fmt.Sprintf("input is accepted and so is input + %q: trailing input is not reported", "\n)"))
		}
		c.Count("probes", 1)
		return
	}
	c.Count("with_error", 1)
	if anyBad {
		c.Count("with_bad_nodes", 1)
	}
	me, ok := p.Err.(memefish.MultiError)
	if !ok {
		c.Violate("c09:error-type", entry, input, fmt.Sprintf("error is %T", p.Err))
		return
	}
	if len(me) < badNodes || len(me) == 0 {
		c.Violate("c09:fewer-errors-than-bad-nodes", entry, input, fmt.Sprintf("%d errors for %d BadNode placeholders", len(me), badNodes))
	}
	c.MaxF("max_errors_per_input", float64(len(me)))
	for i, e := range me {
		switch {
		case e == nil:
			c.Violate("c09:nil-error-element", entry, input, fmt.Sprintf("MultiError[%d] is nil", i))
		case e.Message == "":
			c.Violate("c09:empty-message", entry, input, fmt.Sprintf("MultiError[%d] has an empty message", i))
		case e.Position == nil:
			c.Violate("c09:nil-position", entry, input, fmt.Sprintf("MultiError[%d] (%s) has a nil Position", i, e.Message))
		default:
			ps, es := int(e.Position.Pos), int(e.Position.End)
			if !(0 <= ps && ps <= es && es <= len(input)) {
				c.Violate("c09:error-range:"+firstWords(e.Message, 3), entry, input, fmt.Sprintf("MultiError[%d] (%s) has range [%d,%d] outside 0..%d", i, e.Message, ps, es, len(input)))
			}
			c.SetAdd("error_message_classes", firstWords(e.Message, 3))
		}
	}
}

func RunC09(c *Ctx) {
	n := 0
	treeWorkload(c, c.Pick(200_000, 4_000_000), c.Pick(30_000, 600_000), func(entry, input string) {
		CheckC09(c, entry, input)
		c.Distinct(entry + "\x00" + input)
		n++
		if n%20000 == 1 {
			c.Sample(entry, input, "")
		}
	})
}

// ---------------------------------------------------------------------------
// C10: Bad nodes capture exactly the skipped tokens

type tokLite struct {
	kind     string
	raw      string
	pos, end int
}

func inputTokens(input string) (toks []tokLite, clean bool, ok bool) {
	lr := Lex(input)
	if lr.Panic == nil && lr.Err == nil {
		for _, t := range lr.Tokens {
			if t.Kind != token.TokenEOF {
				toks = append(toks, tokLite{string(t.Kind), t.Raw, int(t.Pos), int(t.End)})
			}
		}
		return toks, true, true
	}
	if !hooksEnabled {
		return nil, false, false
	}
	ts, pv := LexRecover(input)
	if pv != nil {
		return nil, false, false
	}
	for _, t := range ts {
		if t.Kind != token.TokenEOF {
			toks = append(toks, tokLite{string(t.Kind), t.Raw, int(t.Pos), int(t.End)})
		}
	}
	return toks, false, true
}

func sameTok(b *token.Token, u tokLite) bool {
	if string(b.Kind) == u.kind && b.Raw == u.raw && int(b.Pos) == u.pos && int(b.End) == u.end {
		return true
	}
	// second half of a split ">>"
	if u.kind == ">>" && b.Kind == ">" && int(b.Pos) == u.pos+1 && int(b.End) == u.end {
		return true
	}
	return false
}

func CheckC10(c *Ctx, entry, input string) {
	c.Journal(entry, input)
	p := Parse(entry, input)
	c.Eval()
	if p.Panic != nil {
		c.Count("parse_panics_left_to_C03", 1)
		return
	}
	type badRec struct {
		n      *ast.BadNode
		parent string
		depth  int
	}
	var bads []badRec
	for _, root := range p.Roots {
		if astx.IsNilNode(root) {
			continue
		}
		infos := astx.Nodes(root)
		for _, in := range infos {
			if bn, ok := in.Node.(*ast.BadNode); ok && bn != nil {
				par := ""
				if in.Parent >= 0 {
					par = astx.TypeName(infos[in.Parent].Node)
				}
				bads = append(bads, badRec{bn, par, in.Depth})
			}
		}
	}
	if len(bads) == 0 {
		return
	}
	c.Count("inputs_with_bad_nodes", 1)
	c.Distinct(entry + "\x00" + input)
	if c.Res.Counters["inputs_with_bad_nodes"]%20000 == 1 {
		c.Sample(entry, input, fmt.Sprintf("%d Bad nodes", len(bads)))
	}
	toks, lexClean, ok := inputTokens(input)
	if !ok {
		c.Count("skipped_no_token_stream", 1)
		return
	}
	if lexClean {
		c.Count("lexically_clean_inputs", 1)
	} else {
		c.Count("lexically_dirty_inputs_via_H2", 1)
	}
	if len(bads) > 1 {
		c.Count("inputs_with_multiple_bad_nodes", 1)
	}
	for bi, b := range bads {
		bn := b.n
		c.Count("bad_nodes", 1)
		c.SetAdd("bad_kinds", b.parent)
		ps, es := int(bn.NodePos), int(bn.NodeEnd)
		id := fmt.Sprintf("%s.BadNode [%d,%d) with %d tokens", b.parent, ps, es, len(bn.Tokens))
		if ps < 0 || es < ps || es > len(input) {
			c.Violate("c10:range:"+b.parent, entry, input, id+": range outside the input")
			continue
		}
		for _, t := range bn.Tokens {
			if t == nil {
				c.Violate("c10:nil-token:"+b.parent, entry, input, id+": nil token")
			}
		}
		// expected tokens: input tokens inside the range
		var want []tokLite
		for _, u := range toks {
			if u.pos >= ps && u.end <= es {
				want = append(want, u)
			} else if u.kind == ">>" && u.pos+1 >= ps && u.end <= es && u.pos < ps {
				// range starts at the second half of a split ">>"
				want = append(want, u)
			}
		}
		if len(bn.Tokens) == 0 {
			c.Count("empty_bad_nodes", 1)
			if ps != es {
				c.Violate("c10:empty-with-range:"+b.parent, entry, input, id+": no tokens but NodePos != NodeEnd")
			}
			continue
		}
		first, last := bn.Tokens[0], bn.Tokens[len(bn.Tokens)-1]
		if first == nil || last == nil {
			continue
		}
		if int(first.Pos) != ps || int(last.End) != es {
			c.Violate("c10:bounds:"+b.parent, entry, input, fmt.Sprintf("%s: first token starts at %d, last token ends at %d", id, first.Pos, last.End))
		}
		mismatch := ""
		if len(want) != len(bn.Tokens) {
			mismatch = fmt.Sprintf("the input has %d tokens in the range, the node records %d", len(want), len(bn.Tokens))
		} else {
			for k := range want {
				if bn.Tokens[k] == nil || !sameTok(bn.Tokens[k], want[k]) {
					mismatch = fmt.Sprintf("token %d: input has %s %q [%d,%d), node records %s %q [%d,%d)", k, want[k].kind, want[k].raw, want[k].pos, want[k].end, bn.Tokens[k].Kind, bn.Tokens[k].Raw, bn.Tokens[k].Pos, bn.Tokens[k].End)
					break
				}
			}
		}
		if mismatch != "" {
			c.Violate("c10:tokens:"+b.parent, entry, input, id+": "+mismatch)
			continue
		}
		for _, t := range bn.Tokens {
			if len(t.Comments) > 0 {
				c.Count("bad_tokens_with_comments", 1)
			}
			if t.Kind == ">" && t.Raw == ">" && int(t.End)-int(t.Pos) == 1 && int(t.Pos) > 0 && input[t.Pos-1] == '>' {
				c.Count("bad_tokens_after_split_gtgt", 1)
			}
		}
		// overlap with other bad nodes unless nested (nested = same object reachable twice; ranges nested)
		for bj := bi + 1; bj < len(bads); bj++ {
			o := bads[bj].n
			os_, oe := int(o.NodePos), int(o.NodeEnd)
			if os_ < es && ps < oe && !(os_ >= ps && oe <= es) && !(ps >= os_ && es <= oe) {
				c.Violate("c10:overlap", entry, input, fmt.Sprintf("%s partially overlaps another Bad node [%d,%d)", id, os_, oe))
			}
			if os_ >= ps && oe <= es && os_ != oe {
				c.Count("nested_or_duplicated_ranges", 1)
			}
		}
		// SQL() re-lexes to the same kinds and spellings, in the same lexical context
		if lexClean {
			sql, pv := SQLOf(bn)
			if pv != nil {
				c.Count("sql_panics_left_to_C04", 1)
				continue
			}
			// context: the original text up to the end of the token before the Bad node
			prefix := ""
			nDrop := 0
			for k := range toks {
				if toks[k].end <= ps {
					nDrop = k + 1
					prefix = input[:toks[k].end] + " "
				}
			}
			lr := Lex(prefix + sql)
			if lr.Panic != nil || lr.Err != nil {
				c.Violate("c10:sql-not-lexable:"+b.parent, entry, input, fmt.Sprintf("%s: SQL() = %q does not lex (context %q): %v", id, sql, prefix, lr.Err))
				continue
			}
			got := lr.Tokens
			if len(got) > 0 && got[len(got)-1].Kind == token.TokenEOF {
				got = got[:len(got)-1]
			}
			if len(got) < nDrop {
				c.Violate("c10:sql-tokens:"+b.parent, entry, input, fmt.Sprintf("%s: SQL() = %q lost the context", id, sql))
				continue
			}
			got = got[nDrop:]
			bad := len(got) != len(bn.Tokens)
			if !bad {
				for k := range got {
					if got[k].Kind != bn.Tokens[k].Kind || got[k].Raw != bn.Tokens[k].Raw {
						bad = true
						break
					}
				}
			}
			if bad {
				var gs, ws []string
				for _, t := range got {
					gs = append(gs, string(t.Kind)+":"+t.Raw)
				}
				for _, t := range bn.Tokens {
					ws = append(ws, string(t.Kind)+":"+t.Raw)
				}
				c.Violate("c10:sql-tokens:"+b.parent, entry, input, fmt.Sprintf("%s: SQL() = %q re-lexes to %v, the node holds %v", id, sql, gs, ws))
			}
			c.Count("sql_relexed", 1)
		}
	}
	// tokens before a Bad node must not be duplicated into it: covered by the range/sequence equality above.
	// direct sub-check (H2): on lexically clean inputs the recovery-mode lexer equals NextToken
	if lexClean && hooksEnabled {
		ts, pv := LexRecover(input)
		if pv == nil {
			var rl []tokLite
			for _, t := range ts {
				if t.Kind != token.TokenEOF {
					rl = append(rl, tokLite{string(t.Kind), t.Raw, int(t.Pos), int(t.End)})
				}
			}
			same := len(rl) == len(toks)
			if same {
				for k := range rl {
					if rl[k] != toks[k] {
						same = false
						break
					}
				}
			}
			if !same {
				c.Violate("c10:recovery-lexer-differs", entry, input, "on a lexically clean input the recovery-mode lexer and NextToken produce different token streams")
			}
			c.Count("recovery_lexer_compared", 1)
		}
	}
}

func RunC10(c *Ctx) {
	n := 0
	treeWorkload(c, c.Pick(250_000, 5_000_000), 0, func(entry, input string) {
		CheckC10(c, entry, input)
		n++
	})
	// comment-separated and >>-split seeds
	idx := 0
	for _, s := range []struct{ e, in string }{
		{"expr", "1 + a/*c*/b"}, {"expr", "(1 +/*c*/+ /*d*/)"}, {"expr", "f(1 -/*c*/-"}, {"query", "SELECT a b/*c*/c d"}, {"statement", "SELEC/*c*/T 1"},
		{"type", "ARRAY<ARRAY<1>>"}, {"type", "ARRAY<STRUCT<a 1>>"}, {"type", "ARRAY<STRUCT<x INT64 y /* c */>>"}, {"type", "ARRAY<ARRAY<1 /*c*/>>"}, {"expr", "CAST(1 AS ARRAY<STRUCT<a 1 -- c\n>>)"}, {"type", "ARRAY<STRUCT<a 1 >>"}, {"type", "ARRAY<ARRAY<1 2/**/>> "}, {"type", "STRUCT<a ARRAY<>>"}, {"type", "ARRAY<ARRAY<ARRAY<1 2>>>"}, {"expr", "CAST(1 AS ARRAY<ARRAY<1>>)"},
		{"expr", "CAST(1 AS ARRAY<STRUCT<a 1, b 2>>) + (3 4)"}, {"statement", "CREATE TABLE t (a ARRAY<ARRAY<>>)"}, {"expr", "(1 + (2 + (3 4) 5) 6)"}, {"query", "SELECT (SELECT (SELECT 1 1) 2) 3"},
		{"expr", ").select"}, {"expr", "a) . select * 1"}, {"statements", "SELECT 1 1; SELECT 2 2; x"}, {"ddls", "CREATE TABLE (; DROP x y z"}, {"dmls", "INSERT INTO; DELETE x y"},
	} {
		if c.Mine(idx) {
			CheckC10(c, s.e, s.in)
		}
		idx++
	}
	c.Sample("expr", "1 + a/*c*/b", "comment-separated pair inside a Bad node")
	c.Sample("type", "ARRAY<ARRAY<1>>", "Bad node ending at a split >>")
}

func sortedKeys(m map[string]bool) []string {
	var l []string
	for k := range m {
		l = append(l, k)
	}
	sort.Strings(l)
	return l
}

// operandMatrix: every primary-expression form under every complete operator context, with field names of every kind
// after the dot (plain, back-quoted reserved word, back-quoted pseudo-keyword, name that needs quoting, bare reserved
// word - accepted only where the lexer is in dot-identifier mode). Judged only where accepted.
func operandMatrix(c *Ctx, f func(entry, input string)) {
	ctxts := []string{"%s + 1", "1 + %s", "- %s", "NOT %s", "%s IS NULL", "%s IN (1)", "%s BETWEEN 1 AND 2", "%s LIKE 'a'", "%s || %s", "~%s", "%s[0]", "%s[OFFSET(%s)]", "(%s).x", "%s = %s", "f(%s)", "[%s]", "(%s, 1)", "CASE %s WHEN 1 THEN %s END",
		"%s.f", "%s.`select`", "%s.`FROM`.g", "%s.`offset`", "%s.`a b`", "%s.select", "%s.f.`from`[0]", "%s . f", "%s.*", "%s.`select`.*"}
	idx := 0
	for _, a := range exprAtoms {
		for _, ctxt := range ctxts {
			if c.Mine(idx) {
				s := strings.ReplaceAll(ctxt, "%s", a)
				f("expr", s)
				f("statement", "SELECT "+s+" FROM t")
				c.Count("operand_matrix_inputs", 2)
			}
			idx++
		}
	}
}
