package mon

import (
	"bytes"
	"fmt"
	"os"
	"os/exec"
	"path/filepath"
	"reflect"
	"regexp"
	"strconv"
	"strings"

	"github.com/cloudspannerecosystem/memefish/ast"
	"github.com/cloudspannerecosystem/memefish/token"
	"github.com/cloudspannerecosystem/memefish/tools/util/astcatalog"
	"github.com/cloudspannerecosystem/memefish/tools/util/poslang"

	"verif/internal/astx"
	"verif/internal/gen"
)

// ---------------------------------------------------------------------------
// C17: traversal

type traceEv struct {
	kind  byte // 'V' visit, 'M' visit many
	node  ast.Node
	nodes []ast.Node
	path  string
}

type trace struct {
	evs    []traceEv
	prune  map[ast.Node]bool
	fields int
	idxs   int
	// callbacks that arrived at a visitor value other than the one the traversal was handed for them
	proto    []string
	protoSig []string
}

// recVisitor is an immutable recording visitor: every callback returns a NEW visitor value (go/ast style), Field/Index
// with a longer path. The stage says which callback produced this value, so a traversal that sends a callback to the
// wrong visitor (for instance Index to the visitor the list was reached with instead of the one VisitMany returned)
// is observable: a visitor that keeps per-callback state would see a wrong path.
type recVisitor struct {
	t     *trace
	path  string
	stage byte // 0 root, 'v' returned by Visit, 'm' by VisitMany, 'f' by Field, 'i' by Index
}

func stageName(s byte) string {
	switch s {
	case 0:
		return "root"
	case 'v':
		return "Visit"
	case 'm':
		return "VisitMany"
	case 'f':
		return "Field"
	case 'i':
		return "Index"
	}
	return "?"
}

func (v recVisitor) proto(cb string, ok bool) {
	if !ok && len(v.t.proto) < 4 {
		v.t.proto = append(v.t.proto, cb+"-on-result-of-"+stageName(v.stage)+" at path "+strconv.Quote(v.path))
		v.t.protoSig = append(v.t.protoSig, cb+"-on-"+stageName(v.stage))
	}
}

func (v recVisitor) Visit(n ast.Node) ast.Visitor {
	v.proto("Visit", v.stage == 0 || v.stage == 'f' || v.stage == 'i')
	v.t.evs = append(v.t.evs, traceEv{kind: 'V', node: n, path: v.path})
	if v.t.prune[n] {
		return nil
	}
	return recVisitor{v.t, v.path, 'v'}
}

func (v recVisitor) VisitMany(ns []ast.Node) ast.Visitor {
	v.proto("VisitMany", v.stage == 0 || v.stage == 'f')
	v.t.evs = append(v.t.evs, traceEv{kind: 'M', nodes: ns, path: v.path})
	return recVisitor{v.t, v.path, 'm'}
}

func (v recVisitor) Field(name string) ast.Visitor {
	v.proto("Field", v.stage == 'v')
	v.t.fields++
	return recVisitor{v.t, v.path + "/" + name, 'f'}
}

func (v recVisitor) Index(i int) ast.Visitor {
	v.proto("Index", v.stage == 'm')
	v.t.idxs++
	return recVisitor{v.t, v.path + "/#" + strconv.Itoa(i), 'i'}
}

func pathOf(in astx.Info) string {
	if len(in.Path) == 0 {
		return ""
	}
	return "/" + strings.Join(in.Path, "/")
}

// expectedVisits returns the indices of infos visited under pruning set P (strict descendants of pruned nodes are skipped).
func expectedVisits(infos []astx.Info, prune map[ast.Node]bool) []int {
	var out []int
	skipDepth := -1
	for i, in := range infos {
		if skipDepth >= 0 {
			if in.Depth > skipDepth {
				continue
			}
			skipDepth = -1
		}
		out = append(out, i)
		if prune[in.Node] {
			skipDepth = in.Depth
		}
	}
	return out
}

func sameNode(a, b ast.Node) bool {
	defer func() { recover() }()
	return a == b
}

// checkTrace compares a recorded trace with the reflective model.
func checkTrace(c *Ctx, entry, input, what string, infos []astx.Info, prefix string, t *trace, prune map[ast.Node]bool) bool {
	exp := expectedVisits(infos, prune)
	k := 0
	if len(t.proto) > 0 {
		c.Violate("c17:protocol:"+t.protoSig[0], entry, input, fmt.Sprintf("%s: callback sent to the wrong visitor value: %s (a visitor that returns a fresh visitor per callback records a wrong path)", what, strings.Join(t.proto, "; ")))
		return false
	}
	for _, ev := range t.evs {
		switch ev.kind {
		case 'V':
			if k >= len(exp) {
				c.Violate("c17:extra-visit:"+astx.TypeName(ev.node), entry, input, fmt.Sprintf("%s: unexpected extra Visit of %s at path %q after all %d expected nodes", what, astx.TypeName(ev.node), ev.path, len(exp)))
				return false
			}
			in := infos[exp[k]]
			if !sameNode(ev.node, in.Node) {
				par := "<root>"
				if in.Parent >= 0 {
					par = astx.TypeName(infos[in.Parent].Node)
				}
				c.Violate("c17:order:"+par+"."+in.Slot.Field, entry, input, fmt.Sprintf("%s: visit #%d is %s (path %q), expected %s in slot %s (path %q)", what, k, astx.TypeName(ev.node), ev.path, astx.TypeName(in.Node), in.Slot, prefix+pathOf(in)))
				return false
			}
			if ev.path != prefix+pathOf(in) {
				c.Violate("c17:path:"+in.Slot.Parent+"."+in.Slot.Field, entry, input, fmt.Sprintf("%s: %s visited with path %q, real path %q", what, astx.TypeName(in.Node), ev.path, prefix+pathOf(in)))
				return false
			}
			k++
		case 'M':
			// the slice handed to VisitMany must be the slice at that path
			if ev.path == "" && prefix != "" {
				continue // root list of a *Many call, checked by the caller
			}
		}
	}
	if k != len(exp) {
		in := infos[exp[k]]
		par := "<root>"
		if in.Parent >= 0 {
			par = astx.TypeName(infos[in.Parent].Node)
		}
		c.Violate("c17:missing-visit:"+par+"."+in.Slot.Field, entry, input, fmt.Sprintf("%s: %d of %d expected nodes visited; first missing: %s in slot %s", what, k, len(exp), astx.TypeName(in.Node), in.Slot))
		return false
	}
	return true
}

// checkVisitMany verifies every VisitMany event against the reflective slice at its path.
func checkVisitMany(c *Ctx, entry, input string, root ast.Node, infos []astx.Info, t *trace) {
	// index: path of parent node + field -> elements
	type key struct{ path string }
	slices := map[string][]ast.Node{}
	for _, in := range infos {
		if in.Slot.Index >= 0 {
			p := "/" + strings.Join(in.Path[:len(in.Path)-1], "/")
			slices[p] = append(slices[p], in.Node)
		}
	}
	for _, ev := range t.evs {
		if ev.kind != 'M' {
			continue
		}
		want := slices[ev.path]
		// nil elements are skipped by the model; compare non-nil elements in order
		var got []ast.Node
		for _, n := range ev.nodes {
			if !astx.IsNilNode(n) {
				got = append(got, n)
			}
		}
		ok := len(got) == len(want)
		if ok {
			for i := range got {
				if !sameNode(got[i], want[i]) {
					ok = false
				}
			}
		}
		if !ok {
			c.Violate("c17:visitmany:"+lastSeg(ev.path), entry, input, fmt.Sprintf("VisitMany at path %q received %d nodes, the field holds %d", ev.path, len(got), len(want)))
			return
		}
		c.Count("visitmany_checked", 1)
	}
}

func lastSeg(p string) string {
	if i := strings.LastIndex(p, "/"); i >= 0 {
		return p[i+1:]
	}
	return p
}

// CheckC17 observes one case.
func CheckC17(c *Ctx, entry, input string, r interface{ IntN(int) int }) {
	c.Journal(entry, input)
	p := Parse(entry, input)
	c.Eval()
	if p.Panic != nil {
		c.Count("parse_panics_left_to_C03", 1)
		return
	}
	var allInfos [][]astx.Info
	for _, root := range p.Roots {
		if astx.IsNilNode(root) {
			return
		}
		infos := astx.Nodes(root)
		for _, in := range infos {
			if in.TypedNil {
				c.Count("typed_nil_left_to_C04", 1)
				return
			}
		}
		allInfos = append(allInfos, infos)
	}
	for ri, root := range p.Roots {
		infos := allInfos[ri]
		c.Count("nodes", int64(len(infos)))
		for _, in := range infos {
			c.SetAdd("node_types", astx.TypeName(in.Node))
		}
		noteCells(c, infos)
		// full walk
		t := &trace{}
		if pv, _ := callSUT(func() { ast.Walk(root, recVisitor{t: t}) }); pv != nil {
			c.Count("walk_panics_left_to_C04", 1)
			continue
		}
		if !checkTrace(c, entry, input, "Walk", infos, "", t, nil) {
			continue
		}
		checkVisitMany(c, entry, input, root, infos, t)
		c.Count("field_callbacks", int64(t.fields))
		c.Count("index_callbacks", int64(t.idxs))
		// Inspect: same node sequence
		var seq []ast.Node
		callSUT(func() { ast.Inspect(root, func(n ast.Node) bool { seq = append(seq, n); return true }) })
		if len(seq) != len(infos) {
			c.Violate("c17:inspect-count", entry, input, fmt.Sprintf("Inspect visited %d nodes, the tree has %d", len(seq), len(infos)))
		} else {
			for i := range seq {
				if !sameNode(seq[i], infos[i].Node) {
					c.Violate("c17:inspect-order", entry, input, fmt.Sprintf("Inspect visit #%d is %s, expected %s", i, astx.TypeName(seq[i]), astx.TypeName(infos[i].Node)))
					break
				}
			}
		}
		// prunings
		for k := 0; k < 3 && len(infos) > 1; k++ {
			prune := map[ast.Node]bool{}
			for j := 0; j < 1+r.IntN(3); j++ {
				prune[infos[r.IntN(len(infos))].Node] = true
			}
			t := &trace{prune: prune}
			if pv, _ := callSUT(func() { ast.Walk(root, recVisitor{t: t}) }); pv != nil {
				continue
			}
			checkTrace(c, entry, input, "Walk with pruning", infos, "", t, prune)
			// Inspect with the same pruning
			var seq []ast.Node
			callSUT(func() { ast.Inspect(root, func(n ast.Node) bool { seq = append(seq, n); return !prune[n] }) })
			exp := expectedVisits(infos, prune)
			bad := len(seq) != len(exp)
			for i := 0; !bad && i < len(seq); i++ {
				bad = !sameNode(seq[i], infos[exp[i]].Node)
			}
			if bad {
				c.Violate("c17:inspect-prune", entry, input, fmt.Sprintf("Inspect with pruning visited %d nodes, expected %d", len(seq), len(exp)))
			}
			c.Count("prunings", 1)
		}
		// Preorder with cut-offs
		for k := 0; k < 3; k++ {
			cut := r.IntN(len(infos) + 1)
			var got []ast.Node
			pv, _ := callSUT(func() {
				for n := range ast.Preorder(root) {
					if len(got) == cut {
						break
					}
					got = append(got, n)
				}
			})
			if pv != nil {
				c.Violate("c17:preorder-panic", entry, input, fmt.Sprintf("Preorder consumed for %d items panics: %v", cut, pv))
				continue
			}
			want := cut
			if want > len(infos) {
				want = len(infos)
			}
			bad := len(got) != want
			for i := 0; !bad && i < len(got); i++ {
				bad = !sameNode(got[i], infos[i].Node)
			}
			if bad {
				c.Violate("c17:preorder-prefix", entry, input, fmt.Sprintf("Preorder stopped after %d items yielded %d items / wrong prefix", cut, len(got)))
			}
			c.Count("cutoffs", 1)
		}
		// a stored iterator value must be reusable: an early stop of one ranging must not affect the next one
		it := ast.Preorder(root)
		n1, n2 := 0, 0
		callSUT(func() {
			for range it {
				n1++
				if n1 >= 1+len(infos)/2 {
					break
				}
			}
			for range it {
				n2++
			}
		})
		if n2 != len(infos) {
			c.Violate("c17:preorder-iterator-reuse", entry, input, fmt.Sprintf("ranging again over a stored Preorder iterator after an early stop yields %d nodes, the tree has %d", n2, len(infos)))
		}
		// the same iterator value ranged over in a nested fashion: the inner full passes must not disturb the outer one
		if len(infos) <= 400 {
			seq := ast.Preorder(root)
			outer, inner := 0, 0
			callSUT(func() {
				for range seq {
					outer++
					if outer <= 3 {
						for range seq {
							inner++
						}
					}
				}
			})
			wantInner := len(infos) * min(3, len(infos))
			if outer != len(infos) || inner != wantInner {
				c.Violate("c17:preorder-nested-iteration", entry, input, fmt.Sprintf("nested ranging over one Preorder value: outer saw %d of %d nodes, inner passes saw %d of %d", outer, len(infos), inner, wantInner))
			}
		}
		// Preorder full
		n := 0
		callSUT(func() {
			for range ast.Preorder(root) {
				n++
			}
		})
		if n != len(infos) {
			c.Violate("c17:preorder-count", entry, input, fmt.Sprintf("Preorder yielded %d nodes, the tree has %d", n, len(infos)))
		}
	}
	// *Many variants on lists
	if IsListEntry(entry) && len(p.Roots) > 0 {
		t := &trace{}
		if pv, _ := callSUT(func() { ast.WalkMany(p.Roots, recVisitor{t: t}) }); pv == nil {
			// expected: VisitMany(roots) at "", then root i at "/#i" followed by its subtree
			if len(t.evs) == 0 || t.evs[0].kind != 'M' || len(t.evs[0].nodes) != len(p.Roots) {
				c.Violate("c17:walkmany-root", entry, input, "WalkMany did not start with VisitMany(all roots)")
			} else {
				pos := 1
				for ri := range p.Roots {
					infos := allInfos[ri]
					sub := &trace{}
					cnt := 0
					for pos < len(t.evs) && cnt < len(infos) {
						ev := t.evs[pos]
						sub.evs = append(sub.evs, ev)
						if ev.kind == 'V' {
							cnt++
						}
						pos++
					}
					// trailing VisitMany events of this root
					for pos < len(t.evs) && t.evs[pos].kind == 'M' && strings.HasPrefix(t.evs[pos].path, "/#"+strconv.Itoa(ri)+"/") {
						sub.evs = append(sub.evs, t.evs[pos])
						pos++
					}
					if !checkTrace(c, entry, input, "WalkMany", infos, "/#"+strconv.Itoa(ri), sub, nil) {
						break
					}
				}
				if pos != len(t.evs) {
					c.Violate("c17:walkmany-extra", entry, input, fmt.Sprintf("WalkMany made %d callbacks beyond the expected ones", len(t.evs)-pos))
				}
			}
			c.Count("walkmany", 1)
		}
		total := 0
		for _, infos := range allInfos {
			total += len(infos)
		}
		n1, n2 := 0, 0
		callSUT(func() {
			ast.InspectMany(p.Roots, func(ast.Node) bool { n1++; return true })
			for range ast.PreorderMany(p.Roots) {
				n2++
			}
		})
		if n1 != total || n2 != total {
			c.Violate("c17:many-count", entry, input, fmt.Sprintf("InspectMany visited %d, PreorderMany yielded %d, the trees have %d nodes", n1, n2, total))
		}
		cut := r.IntN(total + 1)
		n3 := 0
		pv, _ := callSUT(func() {
			for range ast.PreorderMany(p.Roots) {
				if n3 == cut {
					break
				}
				n3++
			}
		})
		if pv != nil || n3 != cut {
			c.Violate("c17:preordermany-cut", entry, input, fmt.Sprintf("PreorderMany stopped after %d: yielded %d, panic %v", cut, n3, pv))
		}
	}
}

// noteCells records (node type x node-typed field x {absent,present,len0,len1,len2+}) cells.
func noteCells(c *Ctx, infos []astx.Info) {
	for _, in := range infos {
		v := reflect.ValueOf(in.Node)
		if v.Kind() != reflect.Ptr || v.IsNil() {
			continue
		}
		sv := v.Elem()
		st := sv.Type()
		for _, fn := range astx.NodeFieldNames(st) {
			fv := sv.FieldByName(fn)
			cell := ""
			if fv.Kind() == reflect.Slice {
				switch fv.Len() {
				case 0:
					cell = "len0"
				case 1:
					cell = "len1"
				default:
					cell = "len2+"
				}
			} else if fv.IsNil() {
				cell = "absent"
			} else {
				cell = "present"
			}
			c.SetAdd("cells", st.Name()+"."+fn+":"+cell)
		}
	}
}

func RunC17(c *Ctx) {
	r := gen.NewRand(c.Seed, 1700+uint64(c.Shard))
	n := 0
	treeWorkload(c, c.Pick(100_000, 2_000_000), c.Pick(40_000, 800_000), func(entry, input string) {
		CheckC17(c, entry, input, r)
		c.Distinct(entry + "\x00" + input)
		n++
		if n%20000 == 1 {
			c.Sample(entry, input, "")
		}
	})
}

// ---------------------------------------------------------------------------
// C19: generated code equals the documentation

// docExprs reads the "pos = ..." / "end = ..." lines of every node struct in ast/ast.go (independent of astcatalog).
func docExprs(astFile string) (map[string][2]string, error) {
	b, err := os.ReadFile(astFile)
	if err != nil {
		return nil, err
	}
	out := map[string][2]string{}
	re := regexp.MustCompile(`(?m)^type (\w+) struct \{\n((?:[ \t]*//[^\n]*\n|[ \t]*\n)+)`)
	rp := regexp.MustCompile(`(?m)^[ \t]*// pos = (.*)$`)
	reE := regexp.MustCompile(`(?m)^[ \t]*// end = (.*)$`)
	for _, m := range re.FindAllStringSubmatch(string(b), -1) {
		pm, em := rp.FindStringSubmatch(m[2]), reE.FindStringSubmatch(m[2])
		if pm == nil || em == nil {
			continue
		}
		out[m[1]] = [2]string{strings.TrimSpace(pm[1]), strings.TrimSpace(em[1])}
	}
	return out, nil
}

// --- my own evaluator of the position-expression language (DESIGN: independent reading of the documentation)

type pxTok struct{ s string }

func pxLex(src string) []string {
	var toks []string
	for i := 0; i < len(src); {
		ch := src[i]
		switch {
		case ch == ' ' || ch == '\t':
			i++
		case strings.HasPrefix(src[i:], "||"), strings.HasPrefix(src[i:], "??"):
			toks = append(toks, src[i:i+2])
			i += 2
		case strings.ContainsRune("+.()[]$?:", rune(ch)):
			toks = append(toks, string(ch))
			i++
		case ch >= '0' && ch <= '9':
			j := i
			for j < len(src) && src[j] >= '0' && src[j] <= '9' {
				j++
			}
			toks = append(toks, src[i:j])
			i = j
		default:
			j := i
			for j < len(src) && (src[j] == '_' || (src[j] >= 'a' && src[j] <= 'z') || (src[j] >= 'A' && src[j] <= 'Z') || (src[j] >= '0' && src[j] <= '9')) {
				j++
			}
			if j == i {
				panic("poslang: bad character " + string(ch))
			}
			toks = append(toks, src[i:j])
			i = j
		}
	}
	return toks
}

type pxParser struct {
	toks []string
	i    int
}

func (p *pxParser) peek() string {
	if p.i < len(p.toks) {
		return p.toks[p.i]
	}
	return ""
}
func (p *pxParser) next() string { t := p.peek(); p.i++; return t }
func (p *pxParser) expect(s string) {
	if p.next() != s {
		panic("poslang: expected " + s)
	}
}

type posFn func(ev *pxEval, v reflect.Value) token.Pos
type nodeFn func(ev *pxEval, v reflect.Value) ast.Node
type intFn func(v reflect.Value) int

type pxEval struct {
	exprs map[string][2]posFn
}

func (ev *pxEval) pos(n ast.Node) token.Pos {
	fn, ok := ev.exprs[astx.TypeName(n)]
	if !ok {
		panic("poslang: no documentation for " + astx.TypeName(n))
	}
	return fn[0](ev, reflect.ValueOf(n).Elem())
}

func (ev *pxEval) end(n ast.Node) token.Pos {
	fn, ok := ev.exprs[astx.TypeName(n)]
	if !ok {
		panic("poslang: no documentation for " + astx.TypeName(n))
	}
	return fn[1](ev, reflect.ValueOf(n).Elem())
}

func isIdentTok(s string) bool {
	return s != "" && (s[0] == '_' || (s[0] >= 'a' && s[0] <= 'z') || (s[0] >= 'A' && s[0] <= 'Z'))
}

func (p *pxParser) posChoice() posFn {
	alts := []posFn{p.posExpr()}
	for p.peek() == "||" {
		p.next()
		alts = append(alts, p.posExpr())
	}
	return func(ev *pxEval, v reflect.Value) token.Pos {
		for _, a := range alts {
			if x := a(ev, v); !x.Invalid() {
				return x
			}
		}
		return token.InvalidPos
	}
}

func (p *pxParser) posExpr() posFn {
	base := p.posAtom()
	var adds []intFn
	for p.peek() == "+" {
		p.next()
		adds = append(adds, p.intAtom())
	}
	return func(ev *pxEval, v reflect.Value) token.Pos {
		x := base(ev, v)
		if x.Invalid() {
			return token.InvalidPos
		}
		for _, a := range adds {
			x += token.Pos(a(v))
		}
		return x
	}
}

func (p *pxParser) posAtom() posFn {
	if p.peek() == "(" {
		ne := p.nodeExpr()
		return p.posOfNode(ne)
	}
	name := p.next()
	if !isIdentTok(name) {
		panic("poslang: identifier expected, got " + name)
	}
	if p.peek() == "[" || p.peek() == "." {
		ne := p.nodeAtomRest(name)
		return p.posOfNode(ne)
	}
	return func(ev *pxEval, v reflect.Value) token.Pos {
		f := v.FieldByName(name)
		if !f.IsValid() {
			panic("poslang: no field " + name)
		}
		return token.Pos(f.Int())
	}
}

func (p *pxParser) posOfNode(ne nodeFn) posFn {
	p.expect(".")
	which := p.next()
	switch which {
	case "pos":
		return func(ev *pxEval, v reflect.Value) token.Pos {
			n := ne(ev, v)
			if astx.IsNilNode(n) {
				return token.InvalidPos
			}
			return ev.pos(n)
		}
	case "end":
		return func(ev *pxEval, v reflect.Value) token.Pos {
			n := ne(ev, v)
			if astx.IsNilNode(n) {
				return token.InvalidPos
			}
			return ev.end(n)
		}
	}
	panic("poslang: pos or end expected")
}

func (p *pxParser) nodeExpr() nodeFn {
	if p.peek() == "(" {
		p.next()
		alts := []nodeFn{p.nodeAtom()}
		for p.peek() == "??" {
			p.next()
			alts = append(alts, p.nodeAtom())
		}
		p.expect(")")
		return func(ev *pxEval, v reflect.Value) ast.Node {
			for _, a := range alts {
				if n := a(ev, v); !astx.IsNilNode(n) {
					return n
				}
			}
			return nil
		}
	}
	return p.nodeAtom()
}

func (p *pxParser) nodeAtom() nodeFn {
	name := p.next()
	if !isIdentTok(name) {
		panic("poslang: identifier expected, got " + name)
	}
	return p.nodeAtomRest(name)
}

func asNode(f reflect.Value) ast.Node {
	if !f.IsValid() {
		return nil
	}
	switch f.Kind() {
	case reflect.Ptr, reflect.Interface:
		if f.IsNil() {
			return nil
		}
	}
	n, _ := f.Interface().(ast.Node)
	return n
}

func (p *pxParser) nodeAtomRest(name string) nodeFn {
	if p.peek() == "[" {
		p.next()
		if p.peek() == "$" {
			p.next()
			p.expect("]")
			return func(ev *pxEval, v reflect.Value) ast.Node {
				f := v.FieldByName(name)
				if f.Len() == 0 {
					return nil
				}
				return asNode(f.Index(f.Len() - 1))
			}
		}
		idx := p.intAtom()
		p.expect("]")
		return func(ev *pxEval, v reflect.Value) ast.Node {
			f := v.FieldByName(name)
			if f.Len() == 0 {
				return nil
			}
			return asNode(f.Index(idx(v)))
		}
	}
	return func(ev *pxEval, v reflect.Value) ast.Node {
		f := v.FieldByName(name)
		if !f.IsValid() {
			panic("poslang: no field " + name)
		}
		return asNode(f)
	}
}

func (p *pxParser) intAtom() intFn {
	t := p.next()
	switch {
	case t == "len":
		p.expect("(")
		name := p.next()
		p.expect(")")
		return func(v reflect.Value) int { return v.FieldByName(name).Len() }
	case t == "(":
		name := p.next()
		p.expect("?")
		a := p.intAtom()
		p.expect(":")
		b := p.intAtom()
		p.expect(")")
		return func(v reflect.Value) int {
			if v.FieldByName(name).Bool() {
				return a(v)
			}
			return b(v)
		}
	default:
		n, err := strconv.Atoi(t)
		if err != nil {
			panic("poslang: integer expected, got " + t)
		}
		return func(reflect.Value) int { return n }
	}
}

func pxCompile(src string) (fn posFn, err error) {
	defer func() {
		if r := recover(); r != nil {
			err = fmt.Errorf("%v in %q", r, src)
		}
	}()
	p := &pxParser{toks: pxLex(src)}
	fn = p.posChoice()
	if p.i != len(p.toks) {
		panic("poslang: trailing tokens")
	}
	return fn, nil
}

type c19State struct {
	ev        *pxEval
	repoPos   map[string][2]poslang.PosExpr
	sharedPos map[string][2]poslang.PosExpr
	docs      map[string][2]string
	cat       *astcatalog.Catalog
	err       error
}

// checkCatalogFields: (c) the catalog's node-typed fields equal the reflective model, for every node type observed.
func checkCatalogFields(c *Ctx, st *c19State) {
	for name, def := range st.cat.Structs {
		rt := nodeTypesSeen[string(name)]
		if rt == nil {
			continue
		}
		var catFields []string
		for _, f := range def.Fields {
			if isNodeCatalogType(f.Type) {
				catFields = append(catFields, f.Name)
			}
		}
		want := astx.NodeFieldNames(rt)
		if strings.Join(catFields, ",") != strings.Join(want, ",") {
			c.Violate("c19:catalog-fields:"+string(name), "catalog", string(name), fmt.Sprintf("catalog node fields %v, struct fields %v", catFields, want))
		}
		c.Count("catalog_structs_checked", 1)
	}
}

var c19 *c19State

func c19Init(c *Ctx) *c19State {
	if c19 != nil {
		return c19
	}
	st := &c19State{ev: &pxEval{exprs: map[string][2]posFn{}}, repoPos: map[string][2]poslang.PosExpr{}, sharedPos: map[string][2]poslang.PosExpr{}}
	c19 = st
	astFile := filepath.Join(c.RepoDir, "ast", "ast.go")
	constFile := filepath.Join(c.RepoDir, "ast", "ast_const.go")
	docs, err := docExprs(astFile)
	if err != nil {
		st.err = err
		return st
	}
	st.docs = docs
	for name, pe := range docs {
		p1, e1 := pxCompile(pe[0])
		p2, e2 := pxCompile(pe[1])
		if e1 != nil || e2 != nil {
			st.err = fmt.Errorf("%s: %v %v", name, e1, e2)
			return st
		}
		st.ev.exprs[name] = [2]posFn{p1, p2}
	}
	var cat *astcatalog.Catalog
	pv, _ := callSUT(func() { cat, err = astcatalog.Load(astFile, constFile) })
	if pv != nil || err != nil {
		st.err = fmt.Errorf("astcatalog.Load: %v %v", pv, err)
		return st
	}
	shared := map[string]poslang.PosExpr{}
	for name, def := range cat.Structs {
		var pe, ee poslang.PosExpr
		var e1, e2 error
		callSUT(func() { pe, e1 = poslang.Parse(def.Pos); ee, e2 = poslang.Parse(def.End) })
		if e1 != nil || e2 != nil || pe == nil || ee == nil {
			st.err = fmt.Errorf("poslang.Parse(%s): %v %v", name, e1, e2)
			return st
		}
		st.repoPos[string(name)] = [2]poslang.PosExpr{pe, ee}
		// a second set of expression objects, one per distinct expression text and shared by all structs that publish
		// that text: the interpreter's answer must not depend on what an expression object evaluated before
		for _, txt := range []string{def.Pos, def.End} {
			if shared[txt] == nil {
				var x poslang.PosExpr
				callSUT(func() { x, _ = poslang.Parse(txt) })
				shared[txt] = x
			}
		}
		st.sharedPos[string(name)] = [2]poslang.PosExpr{shared[def.Pos], shared[def.End]}
	}
	st.cat = cat
	return st
}

func isNodeCatalogType(t astcatalog.Type) bool {
	switch x := t.(type) {
	case astcatalog.SliceType:
		return isNodeCatalogType(x.Type)
	case *astcatalog.SliceType:
		return isNodeCatalogType(x.Type)
	case astcatalog.PointerType:
		return isNodeCatalogType(x.Type)
	case *astcatalog.PointerType:
		return isNodeCatalogType(x.Type)
	case astcatalog.NodeStructType, astcatalog.NodeInterfaceType:
		return true
	}
	return false
}

var nodeTypesSeen = map[string]reflect.Type{}

// CheckC19Tree compares, for every node, documented expression (my evaluator), repository interpreter and compiled method.
func CheckC19Tree(c *Ctx, entry, input string) {
	st := c19Init(c)
	if st.err != nil {
		return
	}
	c.Journal(entry, input)
	p := Parse(entry, input)
	c.Eval()
	if p.Panic != nil {
		return
	}
	for _, root := range p.Roots {
		if astx.IsNilNode(root) {
			continue
		}
		infos := astx.Nodes(root)
		// traversal enumerates exactly the node-typed fields in declaration order (details and paths are C17's job)
		var seq []ast.Node
		if pv, _ := callSUT(func() { ast.Inspect(root, func(n ast.Node) bool { seq = append(seq, n); return true }) }); pv == nil {
			k := 0
			for k < len(seq) && k < len(infos) && sameNode(seq[k], infos[k].Node) {
				k++
			}
			if k < len(infos) || len(seq) != len(infos) {
				where := "<end>"
				if k < len(infos) {
					where = infos[k].Slot.Parent + "." + infos[k].Slot.Field
				}
				c.Violate("c19:traversal:"+where, entry, input, fmt.Sprintf("traversal visits %d nodes, the node-typed fields reach %d; first difference at visit #%d (%s)", len(seq), len(infos), k, where))
			}
			c.Count("traversals_compared", 1)
		}
		defer func(root ast.Node) {
			// hand-built variant of the same tree in which sibling slots of one dynamic type hold one shared instance:
			// traversal is defined over fields, so every slot is still enumerated (done last: it rewrites the tree)
			if len(infos) > 4000 {
				return
			}
			if n := astx.ShareSiblings(root); n == 0 {
				return
			}
			want := astx.Nodes(root)
			var got []ast.Node
			if pv, _ := callSUT(func() { ast.Inspect(root, func(n ast.Node) bool { got = append(got, n); return true }) }); pv != nil {
				return
			}
			k := 0
			for k < len(got) && k < len(want) && sameNode(got[k], want[k].Node) {
				k++
			}
			if k < len(want) || len(got) != len(want) {
				where := "<end>"
				if k < len(want) {
					where = want[k].Slot.Parent + "." + want[k].Slot.Field
				}
				c.Violate("c19:traversal-shared:"+where, entry, input, fmt.Sprintf("with sibling slots sharing one node instance, traversal visits %d nodes, the node-typed fields reach %d; first difference at visit #%d (%s)", len(got), len(want), k, where))
			}
			c.Count("shared_subtree_traversals_compared", 1)
		}(root)
		for _, in := range infos {
			if in.TypedNil {
				continue
			}
			tn := astx.TypeName(in.Node)
			if nodeTypesSeen[tn] == nil {
				nodeTypesSeen[tn] = reflect.TypeOf(in.Node)
			}
			c.SetAdd("node_types", tn)
			c.Count("nodes", 1)
			gp, pv1 := PosOf(in.Node)
			ge, pv2 := EndOf(in.Node)
			if pv1 != nil || pv2 != nil {
				c.Count("pos_panics_left_to_C04", 1)
				continue
			}
			var mp, me token.Pos
			if pv, _ := callSUT(func() { mp, me = st.ev.pos(in.Node), st.ev.end(in.Node) }); pv != nil {
				// my evaluator panics only for undocumented types or nil-deref inside children
				if strings.Contains(fmt.Sprint(pv), "no documentation") {
					c.Violate("c19:undocumented:"+tn, entry, input, fmt.Sprint(pv))
				}
				continue
			}
			if mp != gp {
				c.Violate("c19:pos:"+tn, entry, input, fmt.Sprintf("%s.Pos() = %d, documented `pos = %s` evaluates to %d", tn, gp, st.docs[tn][0], mp))
			}
			if me != ge {
				c.Violate("c19:end:"+tn, entry, input, fmt.Sprintf("%s.End() = %d, documented `end = %s` evaluates to %d", tn, ge, st.docs[tn][1], me))
			}
			if rp, ok := st.repoPos[tn]; ok {
				var ip, ie token.Pos
				if pv, _ := callSUT(func() { ip, ie = rp[0].EvalPos(in.Node), rp[1].EvalPos(in.Node) }); pv != nil {
					c.Violate("c19:interp-panic:"+tn, entry, input, fmt.Sprintf("poslang interpreter panics on %s: %v", tn, pv))
				} else if ip != gp || ie != ge {
					c.Violate("c19:interp:"+tn, entry, input, fmt.Sprintf("%s: interpreter (%d,%d) vs compiled (%d,%d)", tn, ip, ie, gp, ge))
				}
				if sp, ok := st.sharedPos[tn]; ok && sp[0] != nil && sp[1] != nil {
					var ip, ie token.Pos
					if pv, _ := callSUT(func() { ip, ie = sp[0].EvalPos(in.Node), sp[1].EvalPos(in.Node) }); pv != nil {
						c.Violate("c19:interp-shared-panic:"+tn, entry, input, fmt.Sprintf("poslang interpreter panics on %s when the expression object is shared with other node types: %v", tn, pv))
					} else if ip != gp || ie != ge {
						c.Violate("c19:interp-shared:"+tn, entry, input, fmt.Sprintf("%s: interpreter with an expression object shared across node types (%d,%d) vs compiled (%d,%d)", tn, ip, ie, gp, ge))
					}
				}
			} else {
				c.Violate("c19:catalog-missing:"+tn, entry, input, "node type not in the catalog")
			}
		}
	}
}

// C19 part (a): regenerate pos.go / walk_internal.go and compare byte for byte.
func checkGenerated(c *Ctx) {
	tmp, err := os.MkdirTemp(filepath.Join(VerifDir, "run"), "gen-")
	if err != nil {
		c.Inconclusive("cannot create temp dir: " + err.Error())
		return
	}
	defer os.RemoveAll(tmp)
	for _, g := range []struct{ tool, out, committed string }{
		{"./tools/gen-ast-pos/main.go", "pos.go", "ast/pos.go"},
		{"./tools/gen-ast-walk/main.go", "walk_internal.go", "ast/walk_internal.go"},
	} {
		out := filepath.Join(tmp, g.out)
		cmd := exec.Command("go", "run", g.tool, "-astfile", "ast/ast.go", "-constfile", "ast/ast_const.go", "-outfile", out)
		cmd.Dir = c.RepoDir
		var stderr bytes.Buffer
		cmd.Stderr = &stderr
		if err := cmd.Run(); err != nil {
			c.Violate("c19:generator-fails:"+g.out, "generate", g.tool, fmt.Sprintf("generator failed: %v: %s", err, stderr.String()))
			continue
		}
		a, e1 := os.ReadFile(out)
		b, e2 := os.ReadFile(filepath.Join(c.RepoDir, g.committed))
		if e1 != nil || e2 != nil {
			c.Inconclusive(fmt.Sprintf("cannot read generated/committed file: %v %v", e1, e2))
			continue
		}
		c.Eval()
		c.Count("generated_files_compared", 1)
		if !bytes.Equal(a, b) {
			// first differing line
			la, lb := strings.Split(string(a), "\n"), strings.Split(string(b), "\n")
			i := 0
			for i < len(la) && i < len(lb) && la[i] == lb[i] {
				i++
			}
			var x, y string
			if i < len(la) {
				x = la[i]
			}
			if i < len(lb) {
				y = lb[i]
			}
			c.Violate("c19:stale-generated:"+g.out, "generate", g.committed, fmt.Sprintf("%s differs from the generator output at line %d: generated %q, committed %q", g.committed, i+1, x, y))
		}
	}
}

func RunC19(c *Ctx) {
	st := c19Init(c)
	if st.err != nil {
		if c.Shard == 0 {
			c.Violate("c19:documentation-unreadable", "catalog", "ast/ast.go", st.err.Error())
		}
		return
	}
	if c.Shard == 0 {
		checkGenerated(c)
		c.Count("documented_structs", int64(len(st.docs)))
	}
	n := 0
	treeWorkload(c, c.Pick(100_000, 2_000_000), c.Pick(40_000, 800_000), func(entry, input string) {
		CheckC19Tree(c, entry, input)
		c.Distinct(entry + "\x00" + input)
		n++
		if n%20000 == 1 {
			c.Sample(entry, input, "")
		}
	})
	checkCatalogFields(c, st)
	for name := range st.docs {
		c.SetAdd("documented_types", name)
	}
}
