package mon

import (
	"path/filepath"

	"verif/internal/gen"
)

// VerifDir is the root of /verif (corpus lives there); set by main.
var VerifDir = "/verif"

func (c *Ctx) CorpusDir() string { return filepath.Join(VerifDir, "corpus") }

var corpusCache []gen.CorpusCase

// Corpus returns the frozen corpus (cached).
func (c *Ctx) Corpus() []gen.CorpusCase {
	if corpusCache == nil {
		cs, err := gen.LoadCorpus(c.CorpusDir())
		if err != nil || len(cs) == 0 {
			c.Inconclusive("corpus not readable: " + c.CorpusDir())
			return nil
		}
		corpusCache = cs
	}
	return corpusCache
}

var allEntriesPlus = []string{"statement", "statements", "query", "expr", "type", "ddl", "ddls", "dml", "dmls", "split", "lex"}

// errorWorkload produces n (entry, input) cases that mostly contain errors:
// token-level mutants of corpus files under their own entries (and the list entries),
// hostile random bytes and splices under every entry point. Sharded by case index.
func errorWorkload(c *Ctx, n int, f func(entry, input string)) {
	cs := c.Corpus()
	if len(cs) == 0 {
		return
	}
	ns := max(c.NShards, 1)
	r := gen.NewRand(c.Seed, 900+uint64(c.Shard))
	per := n / ns
	for i := 0; i < per; i++ {
		cc := cs[r.IntN(len(cs))]
		ents := cc.Entries()
		entry := ents[r.IntN(len(ents))]
		switch r.IntN(10) {
		case 0, 1, 2, 3, 4: // token mutant under its own entry
			f(entry, gen.Mutate(r, cc.Text, 3))
		case 5: // token mutant under the list entry / any entry
			m := gen.Mutate(r, cc.Text, 2)
			if le := ListOf(entry); le != "" && r.IntN(2) == 0 {
				f(le, m+";"+gen.Mutate(r, cs[r.IntN(len(cs))].Text, 1))
			} else {
				f(allEntriesPlus[r.IntN(len(allEntriesPlus))], m)
			}
		case 6: // splice of hostile bytes
			f(entry, gen.Splice(r, cc.Text))
		case 7: // splice under list entry, lexer and splitter
			s := gen.Splice(r, cc.Text)
			f(allEntriesPlus[r.IntN(len(allEntriesPlus))], s)
		case 8: // pure hostile bytes
			f(allEntriesPlus[r.IntN(len(allEntriesPlus))], gen.RandBytes(r, 48))
		case 9: // prefix truncation at a random byte
			t := cc.Text
			if len(t) > 0 {
				t = t[:r.IntN(len(t))]
			}
			f(entry, t)
		}
	}
}

// cleanWorkload yields the accepted corpus inputs under each of their entries (sharded).
func corpusWorkload(c *Ctx, includeBad bool, f func(entry string, cc gen.CorpusCase)) {
	idx := 0
	for _, cc := range c.Corpus() {
		if cc.Bad && !includeBad {
			continue
		}
		for _, e := range cc.Entries() {
			if c.Mine(idx) {
				f(e, cc)
			}
			idx++
		}
	}
}

// HooksEnabled reports whether the worker was built with the verif tag.
func HooksEnabled() bool { return hooksEnabled }
