package mon

import (
	"fmt"
	"reflect"
	"runtime/debug"

	memefish "github.com/cloudspannerecosystem/memefish"
	"github.com/cloudspannerecosystem/memefish/ast"
	"github.com/cloudspannerecosystem/memefish/token"
)

// Entries are the parser entry points.
var Entries = []string{"statement", "statements", "query", "expr", "type", "ddl", "ddls", "dml", "dmls"}

// SingleEntries are the single-node entry points.
var SingleEntries = []string{"statement", "query", "expr", "type", "ddl", "dml"}

func IsListEntry(e string) bool { return e == "statements" || e == "ddls" || e == "dmls" }

// ListOf maps a single entry to its list entry ("" if none).
func ListOf(e string) string {
	switch e {
	case "statement", "query":
		return "statements"
	case "ddl":
		return "ddls"
	case "dml":
		return "dmls"
	}
	return ""
}

// SingleOf maps a list entry to its single entry.
func SingleOf(e string) string {
	switch e {
	case "statements":
		return "statement"
	case "ddls":
		return "ddl"
	case "dmls":
		return "dml"
	}
	return e
}

// Parsed is the observation of one Parse* call.
type Parsed struct {
	Entry  string
	Input  string
	Roots  []ast.Node // one element for single entries (possibly nil), k for list entries
	Err    error
	Panic  any
	Stack  string
	Steps  int64
	Budget bool // the step budget was exhausted
}

func (p *Parsed) OK() bool { return p.Panic == nil && p.Err == nil }

// Root returns the single root (nil if none).
func (p *Parsed) Root() ast.Node {
	if len(p.Roots) == 0 {
		return nil
	}
	return p.Roots[0]
}

// FilePath is the file path handed to every entry point; only the sequential C20 path phase changes it.
var FilePath = "verif.sql"

// callSUT runs f and converts a panic into a value; only memefish code runs inside f.
func callSUT(f func()) (pv any, stack string) {
	defer func() {
		if r := recover(); r != nil {
			pv = r
			stack = string(debug.Stack())
		}
	}()
	f()
	return nil, ""
}

// StepBudget is the logical-clock budget for an input of n units (tokens or bytes).
func StepBudget(n int) int64 {
	t := int64(n) + 16
	return 10 * t * t
}

// Parse calls the entry point on input with the step budget armed (when hooks are on).
func Parse(entry, input string) *Parsed {
	return parseWith(entry, input, true)
}

// ParseNoBudget is used by concurrent monitors (the budget is a process-wide counter).
func ParseNoBudget(entry, input string) *Parsed {
	return parseWith(entry, input, false)
}

func wrap[T ast.Node](ns []T) []ast.Node {
	out := make([]ast.Node, len(ns))
	for i, n := range ns {
		out[i] = n
	}
	return out
}

func parseWith(entry, input string, budget bool) *Parsed {
	p := &Parsed{Entry: entry, Input: input}
	if budget {
		setBudget(StepBudget(len(input)))
	}
	p.Panic, p.Stack = callSUT(func() {
		switch entry {
		case "statement":
			n, err := memefish.ParseStatement(FilePath, input)
			p.Roots, p.Err = []ast.Node{n}, err
		case "statements":
			ns, err := memefish.ParseStatements(FilePath, input)
			p.Roots, p.Err = wrap(ns), err
		case "query":
			n, err := memefish.ParseQuery(FilePath, input)
			// *QueryStatement typed pointer: keep nil-ness visible
			if n == nil {
				p.Roots = []ast.Node{nil}
			} else {
				p.Roots = []ast.Node{n}
			}
			p.Err = err
		case "expr":
			n, err := memefish.ParseExpr(FilePath, input)
			p.Roots, p.Err = []ast.Node{n}, err
		case "type":
			n, err := memefish.ParseType(FilePath, input)
			p.Roots, p.Err = []ast.Node{n}, err
		case "ddl":
			n, err := memefish.ParseDDL(FilePath, input)
			p.Roots, p.Err = []ast.Node{n}, err
		case "ddls":
			ns, err := memefish.ParseDDLs(FilePath, input)
			p.Roots, p.Err = wrap(ns), err
		case "dml":
			n, err := memefish.ParseDML(FilePath, input)
			p.Roots, p.Err = []ast.Node{n}, err
		case "dmls":
			ns, err := memefish.ParseDMLs(FilePath, input)
			p.Roots, p.Err = wrap(ns), err
		default:
			panic("verif: unknown entry " + entry)
		}
	})
	if budget {
		p.Steps = steps()
		setBudget(0)
	}
	if p.Panic != nil && isBudgetPanic(p.Panic) {
		p.Budget = true
	}
	return p
}

// Tok is a memefish token observation.
type LexResult struct {
	Tokens []token.Token // including the final <eof> when Err == nil
	Err    error
	Panic  any
	Stack  string
	Calls  int
}

// Lex runs a NextToken loop until <eof>, an error, or len+2 calls.
func Lex(input string) *LexResult {
	r := &LexResult{}
	r.Panic, r.Stack = callSUT(func() {
		l := &memefish.Lexer{File: &token.File{FilePath: FilePath, Buffer: input}}
		for i := 0; i < len(input)+2; i++ {
			r.Calls++
			if err := l.NextToken(); err != nil {
				r.Err = err
				return
			}
			r.Tokens = append(r.Tokens, l.Token)
			if l.Token.Kind == token.TokenEOF {
				return
			}
		}
	})
	return r
}

// LexRecover lexes with the recovery-mode lexer (hook H2); never errors.
func LexRecover(input string) (toks []token.Token, pv any) {
	pv, _ = callSUT(func() {
		l := &memefish.Lexer{File: &token.File{FilePath: FilePath, Buffer: input}}
		for i := 0; i < len(input)+2; i++ {
			nextTokenRecover(l)
			toks = append(toks, l.Token)
			if l.Token.Kind == token.TokenEOF {
				return
			}
		}
	})
	return
}

// SQLOf calls n.SQL() guarded.
func SQLOf(n ast.Node) (s string, pv any) {
	pv, _ = callSUT(func() { s = n.SQL() })
	return
}

func PosOf(n ast.Node) (p token.Pos, pv any) {
	pv, _ = callSUT(func() { p = n.Pos() })
	return
}

func EndOf(n ast.Node) (p token.Pos, pv any) {
	pv, _ = callSUT(func() { p = n.End() })
	return
}

// PanicClass reduces a panic value to a stable class string.
func PanicClass(r any) string {
	switch v := r.(type) {
	case nil:
		return "none"
	case *memefish.Error:
		return "*memefish.Error"
	case error:
		s := v.Error()
		switch {
		case contains(s, "nil pointer"):
			return "nil-deref"
		case contains(s, "index out of range"), contains(s, "slice bounds out of range"):
			return "index-range"
		case contains(s, "interface conversion"):
			return "type-assert"
		}
		return "runtime:" + firstWords(s, 4)
	case string:
		return "string:" + firstWords(v, 3)
	default:
		return fmt.Sprintf("%s", reflect.TypeOf(r))
	}
}

func contains(s, sub string) bool {
	return len(sub) <= len(s) && (func() bool {
		for i := 0; i+len(sub) <= len(s); i++ {
			if s[i:i+len(sub)] == sub {
				return true
			}
		}
		return false
	})()
}

func firstWords(s string, n int) string {
	out := ""
	words := 0
	for i := 0; i < len(s); i++ {
		c := s[i]
		if c == ' ' {
			words++
			if words >= n {
				break
			}
		}
		if c == ':' || c == '\n' || (c >= '0' && c <= '9') {
			break
		}
		out += string(c)
	}
	return out
}
