package gen

import (
	"os"
	"path/filepath"
	"sort"
	"strings"
)

// CorpusCase is one file of the frozen copy of the repository's input corpus (/verif/corpus).
type CorpusCase struct {
	Dir, Name string
	Text      string
	Bad       bool // file name starts with !bad_
}

// Entries returns the entry points under which the file is parsed by the upstream tests.
func (c CorpusCase) Entries() []string {
	switch c.Dir {
	case "ddl":
		return []string{"ddl", "statement"}
	case "dml":
		return []string{"dml", "statement"}
	case "query":
		return []string{"query", "statement"}
	case "expr":
		return []string{"expr"}
	case "statement":
		return []string{"statement"}
	}
	return nil
}

// LoadCorpus reads root/{ddl,dml,expr,query,statement}/*.sql in sorted order.
func LoadCorpus(root string) ([]CorpusCase, error) {
	var out []CorpusCase
	for _, d := range []string{"ddl", "dml", "expr", "query", "statement"} {
		files, err := filepath.Glob(filepath.Join(root, d, "*.sql"))
		if err != nil {
			return nil, err
		}
		sort.Strings(files)
		for _, f := range files {
			b, err := os.ReadFile(f)
			if err != nil {
				return nil, err
			}
			name := filepath.Base(f)
			out = append(out, CorpusCase{Dir: d, Name: name, Text: string(b), Bad: strings.HasPrefix(name, "!bad_")})
		}
	}
	return out, nil
}
