package gen

import "strings"

var strUnits = []string{"\xff", "\xfe", "\xc3", "\x80", "\ufffd", "\u00a0", "\u0085", "\u2028", "\ufeff", "\U0010ffff", "\U0001f600", "\x00", "\x7f", "\x1b", "'", "\"", "`", "\\", "\n", "\r", "\t", "a", "Z", "0", " ", "\u00e9", "\u65e5", "%", "?", "--", "/*", "*/", ";", "'''", "\"\"\"", "\\x41", "\\u0041", "\\n"}

// strval returns a literal value: from the pool, or (1 in 4) a concatenation of 1-4 hostile units
// (pairs and triples of invalid bytes, U+FFFD, quotes, backslashes, controls, astral runes ...).
func (g *G) strval() string {
	if g.r.IntN(4) != 0 {
		return strValues[g.r.IntN(len(strValues))]
	}
	var sb strings.Builder
	for i, n := 0, 1+g.r.IntN(4); i < n; i++ {
		if g.r.IntN(8) == 0 {
			sb.WriteByte(byte(g.r.IntN(256)))
		} else {
			sb.WriteString(strUnits[g.r.IntN(len(strUnits))])
		}
	}
	return sb.String()
}
