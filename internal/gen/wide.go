package gen

import "strings"

// WideFamily builds inputs that are wide rather than deep: one list with n elements.
type WideFamily struct {
	Name  string
	Entry string
	Make  func(n int) string
}

func joinN(item string, n int, sep string) string {
	var sb strings.Builder
	sb.Grow(n * (len(item) + len(sep)))
	for i := 0; i < n; i++ {
		if i > 0 {
			sb.WriteString(sep)
		}
		sb.WriteString(item)
	}
	return sb.String()
}

var WideFamilies = []WideFamily{
	{"in-list", "expr", func(n int) string { return "a IN (" + joinN("1", n, ", ") + ")" }},
	{"array-literal", "expr", func(n int) string { return "[" + joinN("x", n, ",") + "]" }},
	{"call-args", "expr", func(n int) string { return "f(" + joinN("1", n, ", ") + ")" }},
	{"tuple", "expr", func(n int) string { return "(" + joinN("'s'", n+1, ", ") + ")" }},
	{"struct-literal", "expr", func(n int) string { return "STRUCT(" + joinN("1 AS a", n, ", ") + ")" }},
	{"case-whens", "expr", func(n int) string { return "CASE " + joinN("WHEN a THEN 1", n, " ") + " END" }},
	{"select-list", "query", func(n int) string { return "SELECT " + joinN("a", n, ", ") + " FROM t" }},
	{"union", "query", func(n int) string { return joinN("SELECT 1", n+1, " UNION ALL ") }},
	{"ctes", "query", func(n int) string { return "WITH " + joinN("c AS (SELECT 1)", n, ", ") + " SELECT 1" }},
	{"order-by", "query", func(n int) string { return "SELECT 1 FROM t ORDER BY " + joinN("a DESC", n, ", ") }},
	{"group-by", "query", func(n int) string { return "SELECT 1 FROM t GROUP BY " + joinN("a", n, ", ") }},
	{"pipes", "query", func(n int) string { return "FROM t " + joinN("|> WHERE a", n, " ") }},
	{"values-rows", "dml", func(n int) string { return "INSERT INTO t (a) VALUES " + joinN("(1)", n, ", ") }},
	{"update-items", "dml", func(n int) string { return "UPDATE t SET " + joinN("a = 1", n, ", ") + " WHERE TRUE" }},
	{"columns", "ddl", func(n int) string { return "CREATE TABLE t (" + joinN("c INT64", n, ", ") + ") PRIMARY KEY (c)" }},
	{"grant-names", "ddl", func(n int) string { return "GRANT SELECT ON TABLE " + joinN("t", n, ", ") + " TO ROLE r" }},
	{"options", "ddl", func(n int) string { return "ALTER DATABASE d SET OPTIONS (" + joinN("a = 1", n, ", ") + ")" }},
	{"struct-type", "type", func(n int) string { return "STRUCT<" + joinN("a INT64", n, ", ") + ">" }},
	{"statements", "statements", func(n int) string { return joinN("SELECT 1", n, ";\n") }},
	{"path", "expr", func(n int) string { return joinN("a", n+1, ".") }},
	{"hint-records", "query", func(n int) string { return "@{" + joinN("a=1", n, ", ") + "} SELECT 1" }},
}

// WideBrokenFamilies are wide lists whose every element has a syntax error (many Bad nodes / many errors in one input).
var WideBrokenFamilies = []WideFamily{
	{"broken-statements", "statements", func(n int) string { return joinN("SELECT 1 1", n, ";\n") }},
	{"broken-select-items", "query", func(n int) string { return "SELECT " + joinN("(1 +)", n, ", ") }},
	{"broken-array-elements", "expr", func(n int) string { return "[" + joinN("(a b)", n, ", ") + "]" }},
	{"broken-ddls", "ddls", func(n int) string { return joinN("DROP TABLE", n, ";") }},
	{"broken-dmls", "dmls", func(n int) string { return joinN("DELETE FROM", n, "; ") }},
	{"broken-struct-fields", "type", func(n int) string { return "STRUCT<" + joinN("a ARRAY<1>", n, ", ") + ">" }},
	{"broken-call-args", "expr", func(n int) string { return "f(" + joinN("(1 2)", n, ", ") + ")" }},
}

// LongLiterals returns inputs with very long tokens (literals, identifiers, comments).
func LongLiterals() []struct{ Entry, Text string } {
	var out []struct{ Entry, Text string }
	for _, n := range []int{1100, 5000, 70000} {
		x := strings.Repeat("x", n)
		out = append(out,
			struct{ Entry, Text string }{"expr", "'" + x + "'"},
			struct{ Entry, Text string }{"expr", "b\"" + x + "\""},
			struct{ Entry, Text string }{"expr", "`" + x + " y`"},
			struct{ Entry, Text string }{"expr", x},
			struct{ Entry, Text string }{"expr", "'''" + strings.Repeat("é\n", n/3) + "'''"},
			struct{ Entry, Text string }{"query", "SELECT /*" + x + "*/ 1 -- " + x},
			struct{ Entry, Text string }{"query", "SELECT '" + x + "' AS " + x + " FROM " + x},
			struct{ Entry, Text string }{"expr", "1" + strings.Repeat("0", n)},
			struct{ Entry, Text string }{"ddl", "CREATE TABLE t (a STRING(MAX) DEFAULT ('" + x + "')) PRIMARY KEY (a)"},
		)
	}
	return out
}

// WideDeepFamily is a wide list whose k-th element is one deep subtree: traversal and printing code that handles
// wide lists and deep subtrees with the same work stack / buffer sees both at once.
type WideDeepFamily struct {
	Name   string
	Entry  string
	Prefix string
	Item   string // plain element
	Deep   string // element pattern with %s for the deep expression
	Sep    string
	Suffix string
}

var WideDeepFamilies = []WideDeepFamily{
	{"in-list", "expr", "a IN (", "1", "%s", ", ", ")"},
	{"array-literal", "expr", "[", "x", "%s", ", ", "]"},
	{"call-args", "expr", "f(", "1", "%s", ", ", ")"},
	{"tuple", "expr", "(", "'s'", "%s", ", ", ")"},
	{"struct-literal", "expr", "STRUCT(", "1 AS a", "%s AS a", ", ", ")"},
	{"case-whens", "expr", "CASE ", "WHEN a THEN 1", "WHEN %s THEN 1", " ", " END"},
	{"select-list", "query", "SELECT ", "c", "%s", ", ", " FROM t"},
	{"union", "query", "", "SELECT 1", "SELECT %s", " UNION ALL ", ""},
	{"order-by", "query", "SELECT 1 FROM t ORDER BY ", "a DESC", "%s DESC", ", ", ""},
	{"group-by", "query", "SELECT 1 FROM t GROUP BY ", "a", "%s", ", ", ""},
	{"pipes", "query", "FROM t ", "|> WHERE a", "|> WHERE %s", " ", ""},
	{"values-rows", "dml", "INSERT INTO t (a) VALUES ", "(1)", "(%s)", ", ", ""},
	{"update-items", "dml", "UPDATE t SET ", "a = 1", "a = %s", ", ", " WHERE TRUE"},
	{"columns", "ddl", "CREATE TABLE t (", "c INT64", "c INT64 DEFAULT (%s)", ", ", ") PRIMARY KEY (c)"},
	{"options", "ddl", "ALTER DATABASE d SET OPTIONS (", "a = 1", "a = %s", ", ", ")"},
	{"statements", "statements", "", "SELECT 1", "SELECT %s", ";\n", ""},
}

// DeepExpr: kind 0 = left-deep operator chain of d operands, 1 = d nested parentheses, 2 = d nested array literals.
func DeepExpr(kind, d int) string {
	switch kind {
	case 0:
		return joinN("1", d, "+")
	case 1:
		return strings.Repeat("(", d) + "1" + strings.Repeat(")", d)
	default:
		return strings.Repeat("[", d) + "1" + strings.Repeat("]", d)
	}
}

// Make builds the list with w elements, the k-th being deep.
func (f WideDeepFamily) Make(w, k int, deep string) string {
	var sb strings.Builder
	sb.WriteString(f.Prefix)
	for i := 0; i < w; i++ {
		if i > 0 {
			sb.WriteString(f.Sep)
		}
		if i == k {
			sb.WriteString(strings.Replace(f.Deep, "%s", deep, 1))
		} else {
			sb.WriteString(f.Item)
		}
	}
	sb.WriteString(f.Suffix)
	return sb.String()
}
