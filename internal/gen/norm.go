package gen

import (
	"sort"
	"strings"

	"verif/internal/reflex"
)

// NTok is a token in normal form (DESIGN C02).
type NTok struct {
	K      string // KW ID STR BYTES INT FLOAT PARAM P
	V      string
	Quoted bool // back-quoted identifier
	Pos    int  // byte offset in the text it came from
}

func (t NTok) String() string {
	switch t.K {
	case "KW", "P":
		return t.V
	case "ID":
		return "id(" + t.V + ")"
	}
	return t.K + "(" + t.V + ")"
}

// PseudoKeywords is the set of identifiers the grammar gives a role; SQL() prints them from constants (upper case).
var PseudoKeywords = map[string]bool{}

func init() {
	for _, w := range strings.Fields(`
INSERT UPDATE DELETE VALUES RETURN ACTION TABLE TABLES MODEL OPTIONS SAFE_CAST OFFSET ORDINAL SAFE_OFFSET SAFE_ORDINAL BERNOULLI RESERVOIR PERCENT
VALUE DATE TIMESTAMP NUMERIC JSON BOOL INT64 FLOAT32 FLOAT64 STRING BYTES TOKENLIST COUNT REPLACE_FIELDS REPLACE MAX MIN SEQUENCE TIME ZONE
ALTER DROP RENAME GRANT REVOKE ANALYZE CALL SCHEMA DATABASE LOCALITY PLACEMENT BUNDLE INDEX UNIQUE NULL_FILTERED SEARCH VECTOR VIEW SQL SECURITY INVOKER DEFINER
CHANGE STREAM ROLE FUNCTION EXECUTE STATISTICS PROPERTY GRAPH NODE EDGE KEY SOURCE DESTINATION REFERENCES LABEL PROPERTIES ARE COLUMNS COLUMN
CONSTRAINT FOREIGN CHECK PRIMARY INTERLEAVE PARENT CASCADE ACTION ROW DELETION POLICY OLDER_THAN DAY HIDDEN STORED GENERATED IDENTITY AUTO_INCREMENT
BIT_REVERSED_POSITIVE SKIP START COUNTER RESTART SYNONYM ADD STORING STORED ENFORCED EXISTS INPUT OUTPUT REMOTE UPDATE DELETION
FIRST LAST`) {
		PseudoKeywords[w] = true
	}
	for w := range PseudoKeywords {
		// the subscript keywords are not used as names: `a[`offset`]` is read as the keyword (K4 family, scope probe)
		if w == "OFFSET" || w == "ORDINAL" || w == "SAFE_OFFSET" || w == "SAFE_ORDINAL" {
			continue
		}
		pkwList = append(pkwList, w)
	}
	sort.Strings(pkwList)
}

// Normalize lexes text with the reference lexer and applies only the documented canonicalisations.
func Normalize(text string) (out []NTok, st reflex.Status, why string) {
	lx := reflex.Lex(text)
	if lx.Status != reflex.Accept {
		return nil, lx.Status, lx.Why
	}
	var toks []NTok
	for i, t := range lx.Toks {
		switch t.Kind {
		case reflex.KIdent:
			toks = append(toks, NTok{K: "ID", V: t.Value, Quoted: t.Quoted, Pos: t.Pos})
		case reflex.KParam:
			toks = append(toks, NTok{K: "PARAM", V: t.Value, Pos: t.Pos})
		case reflex.KInt:
			toks = append(toks, NTok{K: "INT", V: text[t.Pos:t.End], Pos: t.Pos})
		case reflex.KFloat:
			toks = append(toks, NTok{K: "FLOAT", V: text[t.Pos:t.End], Pos: t.Pos})
		case reflex.KString:
			toks = append(toks, NTok{K: "STR", V: t.Value, Pos: t.Pos})
		case reflex.KBytes:
			toks = append(toks, NTok{K: "BYTES", V: t.Value, Pos: t.Pos})
		case ">>":
			toks = append(toks, NTok{K: "P", V: ">", Pos: t.Pos}, NTok{K: "P", V: ">", Pos: t.Pos + 1})
		case "<>":
			if i > 0 && lx.Toks[i-1].Kind == "STRUCT" {
				toks = append(toks, NTok{K: "P", V: "<", Pos: t.Pos}, NTok{K: "P", V: ">", Pos: t.Pos + 1})
			} else {
				toks = append(toks, NTok{K: "P", V: "!=", Pos: t.Pos})
			}
		default:
			if reflex.IsReserved(t.Kind) {
				toks = append(toks, NTok{K: "KW", V: t.Kind, Pos: t.Pos})
			} else {
				toks = append(toks, NTok{K: "P", V: t.Kind, Pos: t.Pos})
			}
		}
	}
	isID := func(t NTok, w string) bool { return t.K == "ID" && !t.Quoted && asciiEqualFold(t.V, w) }
	isKW := func(t NTok, w string) bool { return t.K == "KW" && t.V == w }
	isP := func(t NTok, w string) bool { return t.K == "P" && t.V == w }
	// noise words and optional commas
	var stack []byte // open brackets: ( [ { and h for hint braces
	var res []NTok
	for i, t := range toks {
		next := NTok{K: "EOF"}
		if i+1 < len(toks) {
			next = toks[i+1]
		}
		prev := NTok{K: "BOF"}
		if i > 0 {
			prev = toks[i-1]
		}
		if t.K == "P" {
			switch t.V {
			case "(", "[":
				stack = append(stack, t.V[0])
			case "{":
				if isP(prev, "@") {
					stack = append(stack, 'h')
				} else {
					stack = append(stack, '{')
				}
			case ")", "]", "}":
				if len(stack) > 0 {
					stack = stack[:len(stack)-1]
				}
			}
		}
		switch {
		case isKW(t, "INNER"), isKW(t, "OUTER"), isKW(t, "INTO"):
			continue
		case isID(t, "ARE") && isID(prev, "PROPERTIES") && isKW(next, "ALL"):
			continue
		case isKW(t, "FROM") && isID(prev, "DELETE"):
			continue
		case isP(t, ","):
			if isKW(next, "FROM") || isP(next, ")") || isP(next, ";") || next.K == "EOF" {
				continue
			}
			if len(stack) > 0 && stack[len(stack)-1] == '{' {
				continue
			}
		}
		res = append(res, t)
	}
	res = regroupCreateTable(res)
	return res, reflex.Accept, ""
}

// regroupCreateTable reorders the elements of every CREATE TABLE column list by kind
// (columns, table constraints, synonyms), keeping the order inside each kind.
func regroupCreateTable(toks []NTok) []NTok {
	isID := func(t NTok, w string) bool { return t.K == "ID" && !t.Quoted && asciiEqualFold(t.V, w) }
	for i := 0; i+1 < len(toks); i++ {
		if !(toks[i].K == "KW" && toks[i].V == "CREATE" && isID(toks[i+1], "TABLE")) {
			continue
		}
		// find the opening parenthesis of the element list
		j := i + 2
		for j < len(toks) && !(toks[j].K == "P" && toks[j].V == "(") {
			if toks[j].K == "P" && toks[j].V == ";" {
				break
			}
			j++
		}
		if j >= len(toks) || toks[j].V != "(" {
			continue
		}
		// split elements at depth 1
		depth := 0
		start := j + 1
		var elems [][]NTok
		end := -1
		for k := j; k < len(toks); k++ {
			t := toks[k]
			if t.K == "P" {
				switch t.V {
				case "(", "[", "{", "<":
					if t.V != "<" {
						depth++
					}
				case ")", "]", "}":
					depth--
					if depth == 0 {
						if k > start {
							elems = append(elems, toks[start:k])
						}
						end = k
					}
				case ",":
					if depth == 1 {
						elems = append(elems, toks[start:k])
						start = k + 1
					}
				}
			}
			if end >= 0 {
				break
			}
		}
		if end < 0 || len(elems) < 2 {
			continue
		}
		class := func(e []NTok) int {
			if len(e) == 0 {
				return 0
			}
			switch {
			case isID(e[0], "CONSTRAINT") && len(e) > 2:
				return 1
			case isID(e[0], "FOREIGN") && len(e) > 1 && isID(e[1], "KEY"):
				return 1
			case isID(e[0], "CHECK") && len(e) > 1 && e[1].K == "P" && e[1].V == "(":
				return 1
			case isID(e[0], "SYNONYM") && len(e) > 1 && e[1].K == "P" && e[1].V == "(":
				return 2
			}
			return 0
		}
		var re []NTok
		first := true
		for cl := 0; cl < 3; cl++ {
			for _, e := range elems {
				if class(e) == cl {
					if !first {
						re = append(re, NTok{K: "P", V: ","})
					}
					first = false
					re = append(re, e...)
				}
			}
		}
		nt := append([]NTok{}, toks[:j+1]...)
		nt = append(nt, re...)
		nt = append(nt, toks[end:]...)
		toks = nt
		i = j
	}
	return toks
}

// SameTok compares two normal-form tokens. Quoting style is a documented canonicalisation, so identifiers
// compare by name; a name that spells a pseudo-keyword compares case-insensitively (SQL() prints those from constants).
func SameTok(a, b NTok) bool {
	if a.K != b.K {
		return false
	}
	if a.V == b.V {
		return true
	}
	if a.K == "ID" && asciiEqualFold(a.V, b.V) && PseudoKeywords[asciiUpper(a.V)] {
		return true
	}
	return false
}

type hunk struct {
	want, got []NTok
	prev      NTok
	hasPrev   bool
}

func repTok(t NTok) string {
	if t.K == "KW" || t.K == "P" {
		return t.V
	}
	if t.K == "ID" && PseudoKeywords[asciiUpper(t.V)] {
		return asciiUpper(t.V)
	}
	return t.K
}

func repToks(ts []NTok, n int) string {
	var ss []string
	for i, t := range ts {
		if i >= n {
			break
		}
		ss = append(ss, repTok(t))
	}
	return strings.Join(ss, " ")
}

func showToks(ts []NTok) string {
	var ss []string
	for i, t := range ts {
		if i >= 8 {
			ss = append(ss, "…")
			break
		}
		ss = append(ss, t.String())
	}
	return strings.Join(ss, " ")
}

// hunks aligns the sequences (longest common subsequence) and returns the maximal runs of unaligned tokens.
func hunks(want, got []NTok) []hunk {
	p := 0
	for p < len(want) && p < len(got) && SameTok(want[p], got[p]) {
		p++
	}
	s := 0
	for s < len(want)-p && s < len(got)-p && SameTok(want[len(want)-1-s], got[len(got)-1-s]) {
		s++
	}
	wm, gm := want[p:len(want)-s], got[p:len(got)-s]
	if len(wm) == 0 && len(gm) == 0 {
		return nil
	}
	mk := func(w, g []NTok, at int) hunk {
		h := hunk{want: w, got: g}
		if at > 0 {
			h.prev, h.hasPrev = want[at-1], true
		}
		return h
	}
	n, m := len(wm), len(gm)
	if n == 0 || m == 0 || n*m > 4_000_000 {
		return []hunk{mk(wm, gm, p)}
	}
	// LCS table
	L := make([][]int32, n+1)
	for i := range L {
		L[i] = make([]int32, m+1)
	}
	for i := n - 1; i >= 0; i-- {
		for j := m - 1; j >= 0; j-- {
			if SameTok(wm[i], gm[j]) {
				L[i][j] = L[i+1][j+1] + 1
			} else if L[i+1][j] >= L[i][j+1] {
				L[i][j] = L[i+1][j]
			} else {
				L[i][j] = L[i][j+1]
			}
		}
	}
	var out []hunk
	i, j := 0, 0
	hi, hj := 0, 0
	flush := func() {
		if i > hi || j > hj {
			out = append(out, mk(wm[hi:i], gm[hj:j], p+hi))
		}
	}
	for i < n && j < m {
		if SameTok(wm[i], gm[j]) {
			flush()
			i++
			j++
			hi, hj = i, j
		} else if L[i+1][j] >= L[i][j+1] {
			i++
		} else {
			j++
		}
	}
	i, j = n, m
	flush()
	return out
}

// DiffToks returns "" if the sequences agree, else a signature and description of the first hunk.
// Signatures carry the tokens of the hunk (up to 4), so that a known finding does not mask a different loss.
func DiffToks(want, got []NTok) (sig, desc string) {
	hs := hunks(want, got)
	if len(hs) == 0 {
		return "", ""
	}
	h := hs[0]
	ctx := ""
	if h.hasPrev {
		ctx = " after " + h.prev.String()
	}
	sameSeq := func(a, b []NTok) bool {
		if len(a) != len(b) {
			return false
		}
		for i := range a {
			if !SameTok(a[i], b[i]) {
				return false
			}
		}
		return true
	}
	switch {
	case len(h.got) == 0:
		// moved: the lost tokens reappear as an added hunk
		for _, o := range hs[1:] {
			if len(o.want) == 0 && sameSeq(o.got, h.want) {
				at := ""
				if h.hasPrev {
					at = "@" + repTok(h.prev)
				}
				return "moved:" + itoa(len(h.want)) + at, "SQL() moved [" + showToks(h.want) + "]" + ctx
			}
		}
		return "missing:" + repToks(h.want, 4), "SQL() lost [" + showToks(h.want) + "]" + ctx
	case len(h.want) == 0:
		for _, o := range hs[1:] {
			if len(o.got) == 0 && sameSeq(o.want, h.got) {
				at := ""
				if h.hasPrev {
					at = "@" + repTok(h.prev)
				}
				return "moved:" + itoa(len(h.got)) + at, "SQL() moved [" + showToks(h.got) + "]" + ctx
			}
		}
		return "extra:" + repToks(h.got, 4), "SQL() added [" + showToks(h.got) + "]" + ctx
	default:
		return "changed:" + repToks(h.want, 3) + "->" + repToks(h.got, 3), "input has [" + showToks(h.want) + "], SQL() has [" + showToks(h.got) + "]" + ctx
	}
}

// asciiUpper / asciiEqualFold: keyword and pseudo-keyword matching is ASCII-only (Unicode case folding would equate
// U+017F with 's' and U+212A with 'k').
func asciiUpper(s string) string {
	b := []byte(s)
	for i, c := range b {
		if c >= 'a' && c <= 'z' {
			b[i] = c - 32
		}
	}
	return string(b)
}

func asciiEqualFold(a, b string) bool { return len(a) == len(b) && asciiUpper(a) == asciiUpper(b) }
