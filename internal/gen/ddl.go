package gen

// DDL productions of grammar G (Spanner data definition language, restricted to what memefish implements).

func (g *G) ifNotExists(site string) {
	if g.opt(site) {
		g.kw("IF", "NOT", "EXISTS")
	}
}

func (g *G) ifExists(site string) {
	if g.opt(site) {
		g.kw("IF", "EXISTS")
	}
}

func (g *G) options() {
	g.pkw("OPTIONS")
	g.p("(")
	g.commaList("options.records", 1, func() {
		g.tok(ID, []string{"locality_group", "optimizer_version", "allow_commit_timestamp", "retention_period", "value_capture_type", "endpoint", "endpoints", "sequence_kind", "distance_type", "tree_depth", "num_leaves"}[g.r.IntN(11)])
		g.p("=")
		switch g.pick("options.value", 6) {
		case 0:
			g.strlit()
		case 1:
			g.intlit()
		case 2:
			g.kw([]string{"TRUE", "FALSE"}[g.r.IntN(2)])
		case 3:
			g.kw("NULL")
		case 4:
			g.p("[")
			g.commaList("options.array", 0, g.strlit)
			g.p("]")
		case 5:
			g.floatlit()
		}
	})
	g.p(")")
}

func (g *G) schemaType() {
	switch g.pick("schematype", 5) {
	case 0:
		g.pkw([]string{"BOOL", "INT64", "FLOAT32", "FLOAT64", "DATE", "TIMESTAMP", "NUMERIC", "JSON", "TOKENLIST"}[g.pick("schematype.scalar", 9)])
	case 1:
		g.sizedType()
	case 2:
		g.kw("ARRAY")
		g.p("<")
		switch g.pick("schematype.array.item", 3) {
		case 0:
			g.pkw([]string{"BOOL", "INT64", "FLOAT32", "FLOAT64", "DATE", "TIMESTAMP", "NUMERIC", "JSON"}[g.r.IntN(8)])
		case 1:
			g.sizedType()
		case 2:
			g.namedType()
		}
		g.p(">")
		if g.pick("schematype.array.args", 4) == 3 {
			g.p("(")
			g.tok(ID, "vector_length")
			g.p("=>")
			g.decint()
			g.p(")")
		}
	case 3:
		g.namedType()
	case 4:
		g.sizedType()
	}
}

func (g *G) sizedType() {
	g.pkw([]string{"STRING", "BYTES"}[g.pick("sizedtype.name", 2)])
	g.p("(")
	if g.opt("sizedtype.max") {
		g.pkw("MAX")
	} else {
		g.tok(INT, []string{"1", "36", "1024", "0x10"}[g.r.IntN(4)])
	}
	g.p(")")
}

func (g *G) sequenceParam() {
	switch g.pick("seqparam", 3) {
	case 0:
		g.pkw("BIT_REVERSED_POSITIVE")
	case 1:
		g.pkw("SKIP")
		g.kw("RANGE")
		g.decint()
		g.p(",")
		g.decint()
	case 2:
		g.pkw("START", "COUNTER")
		g.kw("WITH")
		g.decint()
	}
}

func (g *G) columnDef(inCreate bool) {
	g.ident()
	g.schemaType()
	if g.opt("column.notnull") {
		g.kw("NOT", "NULL")
	}
	switch g.pick("column.default", 7) {
	case 3:
		g.kw("DEFAULT")
		g.p("(")
		g.expr()
		g.p(")")
	case 4:
		g.kw("AS")
		g.p("(")
		g.expr()
		g.p(")")
		if g.opt("column.stored") {
			g.pkw("STORED")
		}
	case 5:
		g.pkw("GENERATED")
		g.kw("BY", "DEFAULT", "AS")
		g.pkw("IDENTITY")
		if g.opt("column.identity.params") {
			g.p("(")
			n := 1 + g.pick("column.identity.nparams", 3)
			for i := 0; i < n; i++ {
				g.sequenceParam()
			}
			g.p(")")
		}
	case 6:
		g.pkw("AUTO_INCREMENT")
	}
	if g.pick("column.hidden", 3) == 2 {
		g.pkw("HIDDEN")
	}
	if inCreate && g.pick("column.primarykey", 3) == 2 {
		g.pkw("PRIMARY", "KEY")
	}
	if g.pick("column.options", 5) == 4 {
		g.options()
	}
}

func (g *G) onDelete() {
	g.kw("ON")
	g.pkw("DELETE")
	if g.opt("ondelete.action") {
		g.pkw("CASCADE")
	} else {
		g.kw("NO")
		g.pkw("ACTION")
	}
}

func (g *G) tableConstraint() {
	if g.opt("constraint.named") {
		g.pkw("CONSTRAINT")
		g.ident()
	}
	if g.opt("constraint.kind") {
		g.pkw("FOREIGN", "KEY")
		g.p("(")
		g.commaList("fk.cols", 1, g.ident)
		g.p(")")
		g.pkw("REFERENCES")
		g.path("fk.reftable")
		g.p("(")
		g.commaList("fk.refcols", 1, g.ident)
		g.p(")")
		if g.pick("fk.ondelete", 3) == 2 {
			g.onDelete()
		}
		switch g.pick("fk.enforcement", 4) {
		case 2:
			g.pkw("ENFORCED")
		case 3:
			g.kw("NOT")
			g.pkw("ENFORCED")
		}
	} else {
		g.pkw("CHECK")
		g.p("(")
		g.expr()
		g.p(")")
	}
}

func (g *G) rowDeletionPolicy() {
	g.pkw("ROW", "DELETION", "POLICY")
	g.p("(")
	g.pkw("OLDER_THAN")
	g.p("(")
	g.ident()
	g.p(",")
	g.kw("INTERVAL")
	g.decint()
	g.pkw("DAY")
	g.p(")", ")")
}

func (g *G) indexKeys(site string) {
	g.commaList(site, 1, func() {
		g.ident()
		switch g.pick(site+".dir", 3) {
		case 1:
			g.kw("ASC")
		case 2:
			g.kw("DESC")
		}
	})
}

func (g *G) identList(site string, min int) {
	g.p("(")
	g.commaList(site, min, g.ident)
	g.p(")")
}

func (g *G) createTable() {
	g.kw("CREATE")
	g.pkw("TABLE")
	g.ifNotExists("createtable.ifnotexists")
	g.path("createtable.name")
	g.p("(")
	n := g.listLen("createtable.elements", 1)
	for i := 0; i < n; i++ {
		if i > 0 {
			g.p(",")
		}
		switch g.pick("createtable.element", 6) {
		case 4:
			g.tableConstraint()
		case 5:
			g.pkw("SYNONYM")
			g.p("(")
			g.ident()
			g.p(")")
		default:
			g.columnDef(true)
		}
	}
	if g.pick("createtable.trailingcomma", 6) == 5 {
		g.p(",")
	}
	g.p(")")
	if g.pick("createtable.primarykey", 4) != 0 {
		g.pkw("PRIMARY", "KEY")
		g.p("(")
		g.indexKeys("createtable.keys")
		g.p(")")
	}
	if g.pick("createtable.interleave", 4) == 3 {
		g.p(",")
		g.pkw("INTERLEAVE")
		g.kw("IN")
		if g.opt("createtable.interleave.parent") {
			g.pkw("PARENT")
		}
		g.path("createtable.interleave.table")
		if g.opt("createtable.interleave.ondelete") {
			g.onDelete()
		}
	}
	if g.pick("createtable.rdp", 5) == 4 {
		g.p(",")
		g.rowDeletionPolicy()
	}
	if g.pick("createtable.options", 5) == 4 {
		g.p(",")
		g.options()
	}
}

func (g *G) alterTable() {
	g.pkw("ALTER", "TABLE")
	g.path("altertable.name")
	switch g.pick("altertable.alteration", 20) {
	case 0:
		g.pkw("ADD", "SYNONYM")
		g.ident()
	case 1:
		g.pkw("DROP", "SYNONYM")
		g.ident()
	case 2:
		g.pkw("RENAME")
		g.kw("TO")
		g.ident()
		if g.opt("altertable.rename.addsynonym") {
			g.p(",")
			g.pkw("ADD", "SYNONYM")
			g.ident()
		}
	case 3:
		g.pkw("ADD", "COLUMN")
		g.ifNotExists("altertable.addcolumn.ifnotexists")
		g.columnDef(false)
	case 4:
		g.pkw("ADD")
		g.tableConstraint()
	case 5:
		g.pkw("ADD")
		g.rowDeletionPolicy()
	case 6:
		g.pkw("DROP", "COLUMN")
		g.ident()
	case 7:
		g.pkw("DROP", "CONSTRAINT")
		g.ident()
	case 8:
		g.pkw("DROP", "ROW", "DELETION", "POLICY")
	case 9:
		g.pkw("REPLACE")
		g.rowDeletionPolicy()
	case 10:
		g.kw("SET")
		g.onDelete()
	case 11:
		g.kw("SET")
		g.pkw("INTERLEAVE")
		g.kw("IN")
		if g.opt("altertable.setinterleave.parent") {
			g.pkw("PARENT")
		}
		g.path("altertable.setinterleave.table")
		if g.opt("altertable.setinterleave.ondelete") {
			g.onDelete()
		}
	case 12:
		g.kw("SET")
		g.options()
	default:
		g.pkw("ALTER", "COLUMN")
		g.ident()
		switch g.pick("altercolumn", 8) {
		case 0, 1:
			g.schemaType()
			if g.opt("altercolumn.notnull") {
				g.kw("NOT", "NULL")
			}
			if g.pick("altercolumn.default", 3) == 2 {
				g.kw("DEFAULT")
				g.p("(")
				g.expr()
				g.p(")")
			}
		case 2:
			g.kw("SET")
			g.options()
		case 3:
			g.kw("SET", "DEFAULT")
			g.p("(")
			g.expr()
			g.p(")")
		case 4:
			g.pkw("DROP")
			g.kw("DEFAULT")
		case 5:
			g.pkw("ALTER", "IDENTITY", "RESTART", "COUNTER")
			g.kw("WITH")
			g.decint()
		case 6:
			g.pkw("ALTER", "IDENTITY")
			g.kw("SET")
			g.pkw("SKIP")
			g.kw("RANGE")
			g.decint()
			g.p(",")
			g.decint()
		case 7:
			g.pkw("ALTER", "IDENTITY")
			g.kw("SET", "NO")
			g.pkw("SKIP")
			g.kw("RANGE")
		}
	}
}

func (g *G) storing(site string) {
	g.pkw("STORING")
	g.identList(site, 1)
}

func (g *G) interleaveIn() {
	g.p(",")
	g.pkw("INTERLEAVE")
	g.kw("IN")
	g.ident()
}

func (g *G) changeStreamFor() {
	g.kw("FOR")
	if g.opt("changestream.for.all") {
		g.kw("ALL")
		return
	}
	g.commaList("changestream.for.tables", 1, func() {
		g.ident()
		if g.opt("changestream.for.columns") {
			g.identList("changestream.for.cols", 1)
		}
	})
}

func (g *G) privilege() {
	switch g.pick("privilege", 5) {
	case 0:
		g.commaList("privilege.table.list", 1, func() {
			switch g.pick("privilege.table.kind", 4) {
			case 0:
				g.kw("SELECT")
				if g.opt("privilege.select.cols") {
					g.identList("privilege.select.collist", 1)
				}
			case 1:
				g.pkw("INSERT")
				if g.opt("privilege.insert.cols") {
					g.identList("privilege.insert.collist", 1)
				}
			case 2:
				g.pkw("UPDATE")
				if g.opt("privilege.update.cols") {
					g.identList("privilege.update.collist", 1)
				}
			case 3:
				g.pkw("DELETE")
			}
		})
		g.kw("ON")
		g.pkw("TABLE")
		g.commaList("privilege.table.names", 1, g.ident)
	case 1:
		g.kw("SELECT", "ON")
		g.pkw("VIEW")
		g.commaList("privilege.view.names", 1, g.ident)
	case 2:
		g.kw("SELECT", "ON")
		g.pkw("CHANGE", "STREAM")
		g.commaList("privilege.changestream.names", 1, g.ident)
	case 3:
		g.pkw("EXECUTE")
		g.kw("ON")
		g.pkw("TABLE", "FUNCTION")
		g.commaList("privilege.tvf.names", 1, g.ident)
	case 4:
		g.pkw("ROLE")
		g.commaList("privilege.role.names", 1, g.ident)
	}
}

func (g *G) modelColumns(site string) {
	g.p("(")
	g.commaList(site, 1, func() {
		g.ident()
		g.schemaType()
		if g.pick(site+".options", 4) == 3 {
			g.options()
		}
	})
	g.p(")")
}

func (g *G) graphColumnList(site string) { g.identList(site, 1) }

func (g *G) graphProperties() {
	switch g.pick("graph.properties", 4) {
	case 0:
		g.kw("NO")
		g.pkw("PROPERTIES")
	case 1:
		g.pkw("PROPERTIES")
		if g.opt("graph.properties.are") {
			g.pkw("ARE")
		}
		g.kw("ALL")
		g.pkw("COLUMNS")
		if g.opt("graph.properties.except") {
			g.kw("EXCEPT")
			g.graphColumnList("graph.properties.exceptcols")
		}
	default:
		g.pkw("PROPERTIES")
		g.p("(")
		g.commaList("graph.properties.derived", 1, func() {
			g.expr()
			if g.opt("graph.properties.derived.as") {
				g.kw("AS")
				g.ident()
			}
		})
		g.p(")")
	}
}

func (g *G) graphElement(edge bool) {
	g.ident()
	if g.opt("graph.element.alias") {
		g.kw("AS")
		g.ident()
	}
	if edge {
		if g.opt("graph.edge.key") {
			g.pkw("KEY")
			g.graphColumnList("graph.edge.keycols")
		}
		g.pkw("SOURCE", "KEY")
		g.graphColumnList("graph.edge.sourcecols")
		g.pkw("REFERENCES")
		g.ident()
		if g.opt("graph.edge.sourceref") {
			g.graphColumnList("graph.edge.sourcerefcols")
		}
		g.pkw("DESTINATION", "KEY")
		g.graphColumnList("graph.edge.destcols")
		g.pkw("REFERENCES")
		g.ident()
		if g.opt("graph.edge.destref") {
			g.graphColumnList("graph.edge.destrefcols")
		}
	} else if g.opt("graph.node.key") {
		g.pkw("KEY")
		g.graphColumnList("graph.node.keycols")
	}
	switch g.pick("graph.element.props", 3) {
	case 1:
		g.graphProperties()
	case 2:
		n := g.listLen("graph.element.labels", 1)
		for i := 0; i < n; i++ {
			if g.opt("graph.label.default") {
				g.kw("DEFAULT")
				g.pkw("LABEL")
			} else {
				g.pkw("LABEL")
				g.ident()
			}
			if g.opt("graph.label.props") {
				g.graphProperties()
			}
		}
	}
}

func (g *G) ddl() {
	switch g.pick("ddl", 46) {
	case 0:
		g.kw("CREATE")
		g.pkw("SCHEMA")
		g.ident()
	case 1:
		g.pkw("DROP", "SCHEMA")
		g.ident()
	case 2:
		g.kw("CREATE")
		g.pkw("DATABASE")
		g.ident()
	case 3:
		g.pkw("ALTER", "DATABASE")
		g.ident()
		g.kw("SET")
		g.options()
	case 4:
		g.kw("CREATE")
		g.pkw("LOCALITY")
		g.kw("GROUP")
		g.ident()
		if g.opt("localitygroup.options") {
			g.options()
		}
	case 5:
		g.pkw("ALTER", "LOCALITY")
		g.kw("GROUP")
		g.ident()
		g.kw("SET")
		g.options()
	case 6:
		g.pkw("DROP", "LOCALITY")
		g.kw("GROUP")
		g.ident()
	case 7:
		g.kw("CREATE")
		g.pkw("PLACEMENT")
		g.ident()
		if g.opt("placement.options") {
			g.options()
		}
	case 8:
		g.kw("CREATE", "PROTO")
		g.pkw("BUNDLE")
		g.p("(")
		g.commaList("protobundle.types", 1, g.namedType)
		g.p(")")
	case 9:
		g.pkw("ALTER")
		g.kw("PROTO")
		g.pkw("BUNDLE")
		any := false
		if g.opt("alterprotobundle.insert") {
			g.pkw("INSERT")
			g.p("(")
			g.commaList("alterprotobundle.insert.types", 1, g.namedType)
			g.p(")")
			any = true
		}
		if g.opt("alterprotobundle.update") {
			g.pkw("UPDATE")
			g.p("(")
			g.commaList("alterprotobundle.update.types", 1, g.namedType)
			g.p(")")
			any = true
		}
		if g.opt("alterprotobundle.delete") || !any {
			g.pkw("DELETE")
			g.p("(")
			g.commaList("alterprotobundle.delete.types", 1, g.namedType)
			g.p(")")
		}
	case 10:
		g.pkw("DROP")
		g.kw("PROTO")
		g.pkw("BUNDLE")
	case 11, 12, 13:
		g.createTable()
	case 14, 15, 16, 17:
		g.alterTable()
	case 18:
		g.pkw("DROP", "TABLE")
		g.ifExists("droptable.ifexists")
		g.path("droptable.name")
	case 19:
		g.pkw("RENAME", "TABLE")
		g.commaList("renametable.list", 1, func() {
			g.ident()
			g.kw("TO")
			g.ident()
		})
	case 20, 21:
		g.kw("CREATE")
		if g.opt("createindex.unique") {
			g.pkw("UNIQUE")
		}
		if g.opt("createindex.nullfiltered") {
			g.pkw("NULL_FILTERED")
		}
		g.pkw("INDEX")
		g.ifNotExists("createindex.ifnotexists")
		g.path("createindex.name")
		g.kw("ON")
		g.path("createindex.table")
		g.p("(")
		g.indexKeys("createindex.keys")
		g.p(")")
		if g.opt("createindex.storing") {
			g.storing("createindex.storing.cols")
		}
		if g.pick("createindex.interleave", 4) == 3 {
			g.interleaveIn()
		}
		if g.pick("createindex.options", 4) == 3 {
			g.options()
		}
	case 22:
		g.pkw("ALTER", "INDEX")
		g.path("alterindex.name")
		if g.opt("alterindex.kind") {
			g.pkw("ADD")
		} else {
			g.pkw("DROP")
		}
		g.pkw("STORED", "COLUMN")
		g.ident()
	case 23:
		g.pkw("DROP", "INDEX")
		g.ifExists("dropindex.ifexists")
		g.path("dropindex.name")
	case 24:
		g.kw("CREATE")
		g.pkw("SEARCH", "INDEX")
		g.ident()
		g.kw("ON")
		g.ident()
		g.identList("searchindex.cols", 1)
		if g.opt("searchindex.storing") {
			g.storing("searchindex.storing.cols")
		}
		listLast := false
		if g.opt("searchindex.partition") {
			g.kw("PARTITION", "BY")
			g.commaList("searchindex.partition.cols", 1, g.ident)
			listLast = true
		}
		if g.opt("searchindex.orderby") {
			listLast = true
			g.kw("ORDER", "BY")
			g.commaList("searchindex.orderby.items", 1, func() {
				g.ident()
				switch g.pick("searchindex.orderby.dir", 3) {
				case 1:
					g.kw("ASC")
				case 2:
					g.kw("DESC")
				}
			})
		}
		if g.opt("searchindex.where") {
			g.kw("WHERE")
			g.ident()
			g.kw("IS", "NOT", "NULL")
			listLast = false
		}
		// ", INTERLEAVE IN" directly after an unparenthesized comma list is a known finding (see SCOPE.md)
		if !listLast && g.pick("searchindex.interleave", 4) == 3 {
			g.interleaveIn()
		}
		if g.pick("searchindex.options", 3) == 2 {
			g.options()
		}
	case 25:
		g.pkw("DROP", "SEARCH", "INDEX")
		g.ifExists("dropsearchindex.ifexists")
		g.ident()
	case 26:
		g.pkw("ALTER", "SEARCH", "INDEX")
		g.ident()
		if g.opt("altersearchindex.kind") {
			g.pkw("ADD")
		} else {
			g.pkw("DROP")
		}
		g.pkw("STORED", "COLUMN")
		g.ident()
	case 27:
		g.kw("CREATE")
		g.pkw("VECTOR", "INDEX")
		g.ifNotExists("vectorindex.ifnotexists")
		g.ident()
		g.kw("ON")
		g.ident()
		g.p("(")
		g.ident()
		g.p(")")
		if g.opt("vectorindex.where") {
			g.kw("WHERE")
			g.ident()
			g.kw("IS", "NOT", "NULL")
		}
		g.options()
	case 28:
		g.pkw("DROP", "VECTOR", "INDEX")
		g.ifExists("dropvectorindex.ifexists")
		g.ident()
	case 29, 30:
		g.kw("CREATE")
		if g.opt("createview.orreplace") {
			g.kw("OR")
			g.pkw("REPLACE")
		}
		g.pkw("VIEW")
		g.path("createview.name")
		g.pkw("SQL", "SECURITY")
		g.pkw([]string{"INVOKER", "DEFINER"}[g.pick("createview.security", 2)])
		g.kw("AS")
		g.query()
	case 31:
		g.pkw("DROP", "VIEW")
		g.path("dropview.name")
	case 32:
		g.kw("CREATE")
		g.pkw("CHANGE", "STREAM")
		g.ident()
		if g.opt("createchangestream.for") {
			g.changeStreamFor()
		}
		if g.opt("createchangestream.options") {
			g.options()
		}
	case 33:
		g.pkw("ALTER", "CHANGE", "STREAM")
		g.ident()
		switch g.pick("alterchangestream", 3) {
		case 0:
			g.kw("SET")
			g.changeStreamFor()
		case 1:
			g.pkw("DROP")
			g.kw("FOR", "ALL")
		case 2:
			g.kw("SET")
			g.options()
		}
	case 34:
		g.pkw("DROP", "CHANGE", "STREAM")
		g.ident()
	case 35:
		if g.opt("role.kind") {
			g.kw("CREATE")
		} else {
			g.pkw("DROP")
		}
		g.pkw("ROLE")
		g.ident()
	case 36:
		g.pkw("GRANT")
		g.privilege()
		g.kw("TO")
		g.pkw("ROLE")
		g.commaList("grant.roles", 1, g.ident)
	case 37:
		g.pkw("REVOKE")
		g.privilege()
		g.kw("FROM")
		g.pkw("ROLE")
		g.commaList("revoke.roles", 1, g.ident)
	case 38:
		g.kw("CREATE")
		g.pkw("SEQUENCE")
		g.ifNotExists("createsequence.ifnotexists")
		g.path("createsequence.name")
		n := g.pick("createsequence.nparams", 4)
		for i := 0; i < n; i++ {
			g.sequenceParam()
		}
		if g.opt("createsequence.options") || n == 0 {
			g.options()
		}
	case 39:
		g.pkw("ALTER", "SEQUENCE")
		g.path("altersequence.name")
		switch g.pick("altersequence", 6) {
		case 0:
			g.kw("SET")
			g.options()
		case 1:
			g.pkw("RESTART", "COUNTER")
			g.kw("WITH")
			g.decint()
		case 2:
			g.pkw("SKIP")
			g.kw("RANGE")
			g.decint()
			g.p(",")
			g.decint()
		case 3:
			g.kw("NO")
			g.pkw("SKIP")
			g.kw("RANGE")
		case 4:
			g.pkw("RESTART", "COUNTER")
			g.kw("WITH")
			g.decint()
			g.pkw("SKIP")
			g.kw("RANGE")
			g.decint()
			g.p(",")
			g.decint()
		case 5:
			g.pkw("RESTART", "COUNTER")
			g.kw("WITH")
			g.decint()
			g.kw("NO")
			g.pkw("SKIP")
			g.kw("RANGE")
		}
	case 40:
		g.pkw("DROP", "SEQUENCE")
		g.ifExists("dropsequence.ifexists")
		g.path("dropsequence.name")
	case 41:
		g.pkw("ALTER", "STATISTICS")
		g.ident()
		g.kw("SET")
		g.options()
	case 42:
		g.pkw("ANALYZE")
	case 43:
		switch g.pick("model", 3) {
		case 0:
			g.kw("CREATE")
			if g.opt("createmodel.orreplace") {
				g.kw("OR")
				g.pkw("REPLACE")
			}
			g.pkw("MODEL")
			g.ifNotExists("createmodel.ifnotexists")
			g.ident()
			if g.opt("createmodel.inputoutput") {
				g.pkw("INPUT")
				g.modelColumns("createmodel.input")
				g.pkw("OUTPUT")
				g.modelColumns("createmodel.output")
			}
			g.pkw("REMOTE")
			if g.opt("createmodel.options") {
				g.options()
			}
		case 1:
			g.pkw("ALTER", "MODEL")
			g.ifExists("altermodel.ifexists")
			g.ident()
			g.kw("SET")
			g.options()
		case 2:
			g.pkw("DROP", "MODEL")
			g.ifExists("dropmodel.ifexists")
			g.ident()
		}
	case 44:
		g.kw("CREATE")
		if g.opt("creategraph.orreplace") {
			g.kw("OR")
			g.pkw("REPLACE")
		}
		g.pkw("PROPERTY", "GRAPH")
		g.ifNotExists("creategraph.ifnotexists")
		g.ident()
		g.pkw("NODE", "TABLES")
		g.p("(")
		g.commaList("creategraph.nodes", 1, func() { g.graphElement(false) })
		g.p(")")
		if g.opt("creategraph.edges") {
			g.pkw("EDGE", "TABLES")
			g.p("(")
			g.commaList("creategraph.edgelist", 1, func() { g.graphElement(true) })
			g.p(")")
		}
	case 45:
		g.pkw("DROP", "PROPERTY", "GRAPH")
		g.ifExists("dropgraph.ifexists")
		g.ident()
	}
}
