package gen

import (
	"math/rand/v2"
	"strings"

	"verif/internal/reflex"
)

var insertPool = []string{
	"SELECT", "FROM", "WHERE", "AS", "(", ")", ",", ".", ";", "[", "]", "{", "}", "<", ">", ">>", "=", "+", "-", "*", "/", "||", "|>", "@", "@{", "->", "=>",
	"AND", "OR", "NOT", "IN", "IS", "NULL", "BETWEEN", "LIKE", "CASE", "WHEN", "THEN", "ELSE", "END", "ARRAY", "STRUCT", "CAST", "UNNEST", "JOIN", "ON", "USING",
	"GROUP", "BY", "HAVING", "ORDER", "LIMIT", "OFFSET", "UNION", "ALL", "DISTINCT", "EXCEPT", "INTERSECT", "WITH", "EXISTS", "IF", "INTERVAL", "NEW", "DEFAULT",
	"CREATE", "TABLE", "INDEX", "ALTER", "DROP", "INSERT", "INTO", "VALUES", "UPDATE", "SET", "DELETE", "OPTIONS", "PRIMARY", "KEY", "INT64", "STRING", "MAX",
	"x", "y", "t", "1", "2.5", "'s'", "b'b'", "@p", "`q`", "TRUE", "TABLESAMPLE", "HASH", "FOR", "TO", "ROLE", "GRANT", "SEQUENCE", "MODEL", "EXTRACT",
	"/*c*/", "-- c\n", "'", "\"", "`", "\\", "0x", "1a", "\x00", "\xff", "$", "?", "!",
}

// Mutate applies 1..maxEdits token-level edits to text. It returns the mutant; tokens come from the reference lexer.
// If the text does not lex, byte-level edits are used.
func Mutate(r *rand.Rand, text string, maxEdits int) string {
	lx := reflex.Lex(text)
	if lx.Status != reflex.Accept || len(lx.Toks) == 0 {
		return mutateBytes(r, text)
	}
	// pieces: trivia before token i + token i; plus trailing trivia
	type piece struct{ pre, tok string }
	var ps []piece
	prev := 0
	for _, t := range lx.Toks {
		ps = append(ps, piece{text[prev:t.Pos], text[t.Pos:t.End]})
		prev = t.End
	}
	tail := text[prev:]
	edits := 1 + r.IntN(maxEdits)
	for e := 0; e < edits; e++ {
		if len(ps) == 0 {
			break
		}
		i := r.IntN(len(ps))
		switch r.IntN(9) {
		case 0: // delete
			ps = append(ps[:i], ps[i+1:]...)
		case 1: // insert
			np := piece{" ", insertPool[r.IntN(len(insertPool))]}
			ps = append(ps[:i], append([]piece{np}, ps[i:]...)...)
		case 2: // replace
			ps[i].tok = insertPool[r.IntN(len(insertPool))]
		case 3: // swap
			j := r.IntN(len(ps))
			ps[i].tok, ps[j].tok = ps[j].tok, ps[i].tok
		case 4: // duplicate
			np := piece{" ", ps[i].tok}
			ps = append(ps[:i], append([]piece{np}, ps[i:]...)...)
		case 5: // truncate
			if r.IntN(3) == 0 {
				ps = ps[:i]
				tail = ""
			} else {
				// delete a run
				j := i + 1 + r.IntN(3)
				if j > len(ps) {
					j = len(ps)
				}
				ps = append(ps[:i], ps[j:]...)
			}
		case 6: // replace with token from same text (keeps it plausible)
			j := r.IntN(len(ps))
			ps[i].tok = ps[j].tok
		case 8: // a comment (and nothing else) between two tokens
			ps[i].pre = []string{"/*c*/", " /* c */", "-- c\n", " # c\n", "/**/"}[r.IntN(5)]
		case 7: // move a token 1-3 positions to the right
			j := i + 1 + r.IntN(3)
			if j < len(ps) {
				t := ps[i].tok
				for k := i; k < j; k++ {
					ps[k].tok = ps[k+1].tok
				}
				ps[j].tok = t
			}
		}
	}
	var sb strings.Builder
	for _, p := range ps {
		if p.pre == "" {
			sb.WriteByte(' ')
		} else {
			sb.WriteString(p.pre)
		}
		sb.WriteString(p.tok)
	}
	sb.WriteString(tail)
	return sb.String()
}

func mutateBytes(r *rand.Rand, text string) string {
	b := []byte(text)
	if len(b) == 0 {
		return string(Alphabet[r.IntN(len(Alphabet))])
	}
	for e := 0; e < 1+r.IntN(3); e++ {
		i := r.IntN(len(b))
		switch r.IntN(3) {
		case 0:
			b = append(b[:i], b[i+1:]...)
		case 1:
			b[i] = byte(r.IntN(256))
		case 2:
			b = append(b[:i], append([]byte(hostileChunks[r.IntN(len(hostileChunks))]), b[i:]...)...)
		}
		if len(b) == 0 {
			break
		}
	}
	return string(b)
}

// Splice inserts hostile bytes into text at offset 0, after a ';', or at a random place.
func Splice(r *rand.Rand, text string) string {
	chunk := RandBytes(r, 6)
	switch r.IntN(4) {
	case 0:
		return chunk + text
	case 1:
		if i := strings.IndexByte(text, ';'); i >= 0 {
			return text[:i+1] + chunk + text[i+1:]
		}
		return text + ";" + chunk
	case 2:
		return text + chunk
	default:
		i := r.IntN(len(text) + 1)
		return text[:i] + chunk + text[i:]
	}
}

// Nest returns adversarial nesting families: name -> generator(n, closed).
type NestFamily struct {
	Name  string
	Entry string
	Make  func(n int, closed bool) string
}

func rep(s string, n int) string { return strings.Repeat(s, n) }

var NestFamilies = []NestFamily{
	{"paren", "expr", func(n int, c bool) string {
		if c {
			return rep("(", n) + "1" + rep(")", n)
		}
		return rep("(", n)
	}},
	{"bracket", "expr", func(n int, c bool) string {
		if c {
			return rep("[", n) + "1" + rep("]", n)
		}
		return rep("[", n)
	}},
	{"brace", "expr", func(n int, c bool) string {
		if c {
			return "NEW T " + rep("{a ", n) + rep("}", n)
		}
		return "NEW T " + rep("{a:", n)
	}},
	{"case", "expr", func(n int, c bool) string {
		if c {
			return rep("CASE WHEN ", n) + "1" + rep(" THEN 1 END", n)
		}
		return rep("CASE WHEN ", n)
	}},
	{"arraytype", "type", func(n int, c bool) string {
		if c {
			return rep("ARRAY<", n) + "INT64" + rep(">", n)
		}
		return rep("ARRAY<", n)
	}},
	{"structtype", "type", func(n int, c bool) string {
		if c {
			return rep("STRUCT<a ", n) + "INT64" + rep(">", n)
		}
		return rep("STRUCT<a ", n)
	}},
	{"subquery", "query", func(n int, c bool) string {
		if c {
			return rep("(SELECT ", n) + "1" + rep(")", n)
		}
		return rep("(SELECT ", n)
	}},
	{"fromsub", "query", func(n int, c bool) string {
		if c {
			return "SELECT 1 FROM " + rep("(SELECT 1 FROM ", n) + "t" + rep(")", n)
		}
		return "SELECT 1 FROM " + rep("(SELECT 1 FROM ", n)
	}},
	{"commajoins", "query", func(n int, c bool) string { return "SELECT 1 FROM " + rep("t, ", n) + "t" }},
	{"minus", "expr", func(n int, c bool) string { return rep("- ", n) + "1" }},
	{"not", "expr", func(n int, c bool) string { return rep("NOT ", n) + "a" }},
	{"tilde", "expr", func(n int, c bool) string { return rep("~", n) + "1" }},
	{"binary", "expr", func(n int, c bool) string { return rep("1 + ", n) + "1" }},
	{"selector", "expr", func(n int, c bool) string { return "a" + rep(".b", n) }},
	{"index", "expr", func(n int, c bool) string { return "a" + rep("[0]", n) }},
	{"call", "expr", func(n int, c bool) string {
		if c {
			return rep("f(", n) + "1" + rep(")", n)
		}
		return rep("f(", n)
	}},
	{"joinparen", "query", func(n int, c bool) string {
		if c {
			return "SELECT 1 FROM " + rep("(", n) + "a JOIN b ON TRUE" + rep(")", n)
		}
		return "SELECT 1 FROM " + rep("(", n) + "a"
	}},
	{"stmts", "statements", func(n int, c bool) string { return rep("SELECT 1;", n) }},
	{"semis", "statements", func(n int, c bool) string { return rep(";", n) }},
	{"comments", "statements", func(n int, c bool) string { return rep("/*c*/", n) + "SELECT 1" }},
	{"gtgt", "type", func(n int, c bool) string { return rep("ARRAY<STRUCT<a ", n/2+1) + "INT64" + rep(">>", n/2+1) }},
	{"union", "query", func(n int, c bool) string { return rep("SELECT 1 UNION ALL ", n) + "SELECT 1" }},
	{"with", "query", func(n int, c bool) string {
		if c {
			return rep("WITH a AS (", n) + "SELECT 1" + rep(") SELECT 1", n)
		}
		return rep("WITH a AS (", n)
	}},
}

// SystematicEdits yields, for every token position of text, the text with that token deleted and the text with
// a ',' inserted before it (and after the last token). Deterministic; trivia is kept.
func SystematicEdits(text string, f func(mutant string)) {
	lx := reflex.Lex(text)
	if lx.Status != reflex.Accept {
		return
	}
	for _, t := range lx.Toks {
		f(text[:t.Pos] + text[t.End:])
		f(text[:t.Pos] + ", " + text[t.Pos:])
	}
	if n := len(lx.Toks); n > 0 {
		f(text[:lx.Toks[n-1].End] + " ," + text[lx.Toks[n-1].End:])
	}
	// every truncation after a token and every start in the middle
	for i, t := range lx.Toks {
		if i < len(lx.Toks)-1 {
			f(text[:t.End])
		}
		if i > 0 {
			f(text[t.Pos:])
		}
	}
	// every balanced bracket group deleted
	var stack []int
	for i, t := range lx.Toks {
		switch t.Kind {
		case "(", "[", "{":
			stack = append(stack, i)
		case ")", "]", "}":
			if len(stack) > 0 {
				o := lx.Toks[stack[len(stack)-1]]
				stack = stack[:len(stack)-1]
				f(text[:o.Pos] + text[t.End:])
			}
		}
	}
}

// SystematicMoves yields, for every token position, the text with that token moved 1, 2 or 3 tokens to the right
// (clause-order near misses: most are rejected, the accepted ones are shapes no author wrote).
func SystematicMoves(text string, f func(mutant string)) {
	lx := reflex.Lex(text)
	if lx.Status != reflex.Accept {
		return
	}
	n := len(lx.Toks)
	for i := 0; i < n; i++ {
		for d := 1; d <= 3 && i+d < n; d++ {
			a, b := lx.Toks[i], lx.Toks[i+d]
			// text = ... a rest b ...  ->  ... rest b a ...
			mid := text[a.End:b.End]
			f(text[:a.Pos] + strings.TrimLeft(mid, " ") + " " + text[a.Pos:a.End] + text[b.End:])
		}
	}
}

// SystematicDuplicates yields, for every token position and run length 1..8, the text with that run of tokens
// written twice (a clause repeated once more than any author would).
func SystematicDuplicates(text string, f func(mutant string)) {
	lx := reflex.Lex(text)
	if lx.Status != reflex.Accept {
		return
	}
	n := len(lx.Toks)
	for i := 0; i < n; i++ {
		for L := 1; L <= 8 && i+L <= n; L++ {
			a, b := lx.Toks[i].Pos, lx.Toks[i+L-1].End
			f(text[:b] + " " + text[a:b] + text[b:])
		}
	}
}

// FuturePhrases are pieces of GoogleSQL / SQL syntax that memefish does not implement today. Inserted into valid
// sentences they are rejected; if a change makes the parser accept one, the checks exercise the new syntax at once.
var FuturePhrases = []string{
	"IS DISTINCT FROM b", "IS NOT DISTINCT FROM b", "NULLS FIRST", "NULLS LAST", "QUALIFY a", "WINDOW w AS (PARTITION BY a)", "OVER ()", "OVER (PARTITION BY a ORDER BY b)",
	"OVER w", "ROLLUP (a, b)", "GROUPING SETS ((a), (b))", "CUBE (a)", "LIMIT 1", "OFFSET 1", "ESCAPE '!'", "ANY (SELECT 1)", "SOME (1, 2)", "ALL (1)", "WITHIN GROUP (ORDER BY a)",
	"FOR SYSTEM_TIME AS OF ts", "PIVOT (SUM(a) FOR b IN (1, 2))", "UNPIVOT (a FOR b IN (c, d))", "RECURSIVE", "NATURAL JOIN t2", "LATERAL", "TABLESAMPLE SYSTEM (1 PERCENT)",
	"ROWS BETWEEN 1 PRECEDING AND CURRENT ROW", "WITH OFFSET AS o", "AS OF SYSTEM TIME x", "COLLATE 'und:ci'", "AT TIME ZONE 'UTC'", "INTERVAL 1 DAY", "IN UNNEST(a)", "NOT NULL",
	"DEFAULT 1", "IF EXISTS", "IF NOT EXISTS", "OR REPLACE", "CASCADE", "RESTRICT", "|> LIMIT 1", "|> ORDER BY a", "|> AGGREGATE COUNT(*) GROUP BY a", "|> EXTEND a AS b", "|> JOIN t2 USING (a)",
	"|> SET a = 1", "|> DROP a", "|> RENAME a AS b", "|> AS t", "|> CALL f()", "|> UNION ALL (SELECT 1)", "|> TABLESAMPLE BERNOULLI (1 PERCENT)", "ASSERT_ROWS_MODIFIED 1", "ON CONFLICT DO NOTHING",
	"RETURNING *", "USING (a)", "FETCH FIRST 1 ROWS ONLY", "EXCLUDE CURRENT ROW", "TREAT AS t", "CONTAINS KEY a", "GRAPH_TABLE (g MATCH (n) RETURN n.x)", "MERGE INTO t", "STORED", "VIRTUAL",
	// ordinary clauses in places where they do not belong
	"ORDER BY a", "GROUP BY a", "HAVING a", "WHERE a", "FROM t", "JOIN t2 ON a", "UNION ALL SELECT 1", "AS x", "SET a = 1", "VALUES (1)", "THEN RETURN a", "PRIMARY KEY (a)", "OPTIONS (a = 1)",
}

// PhraseInsertions inserts every future phrase before every token of text (and at its end).
func PhraseInsertions(text string, f func(mutant string)) {
	lx := reflex.Lex(text)
	if lx.Status != reflex.Accept {
		return
	}
	for _, ph := range FuturePhrases {
		for _, t := range lx.Toks {
			f(text[:t.Pos] + ph + " " + text[t.Pos:])
		}
		f(text + " " + ph)
	}
}

// HostilePrefixes are written in front of valid inputs (byte order mark, NBSP, zero width space, NUL, shebang ...).
var HostilePrefixes = []string{"\ufeff", "\u00a0", "\u200b", "\x00", "\ufeff\ufeff", " \ufeff", "\ufeff ", "\ufeff\n", "\u2028", "\u3000", "\x1a", "\xef\xbb", "#!sql\n", "\r", "\v\f", "\xc2\x85", "\ufffe", "\x7f"}

func isPlainWord(s string) bool {
	if s == "" || s[0] >= '0' && s[0] <= '9' {
		return false
	}
	for i := 0; i < len(s); i++ {
		c := s[i]
		if !(c == '_' || c >= 'a' && c <= 'z' || c >= 'A' && c <= 'Z' || c >= '0' && c <= '9') {
			return false
		}
	}
	return true
}

// QuoteWordEdits yields, for every word token (identifier, keyword, parameter or system-variable name), the text with
// that word back-quoted in place.
func QuoteWordEdits(text string, f func(mutant string)) {
	lx := reflex.Lex(text)
	if lx.Status != reflex.Accept {
		return
	}
	for _, t := range lx.Toks {
		w := text[t.Pos:t.End]
		at := 0
		for at < len(w) && at < 2 && w[at] == '@' {
			at++
		}
		if isPlainWord(w[at:]) {
			f(text[:t.Pos] + w[:at] + "`" + w[at:] + "`" + text[t.End:])
		}
	}
}

// WidenLists yields, for every bracket group ( ) [ ] { } of text that has content, the text with the group's last
// top-level element written n more times (", elem"): every list of the sentence becomes a wide one in turn, inside
// whatever construct it sits in. Elements are taken between top-level commas of the group.
func WidenLists(text string, n int, f func(mutant string)) {
	lx := reflex.Lex(text)
	if lx.Status != reflex.Accept {
		return
	}
	type open struct{ tok, lastComma int }
	var stack []open
	for i, t := range lx.Toks {
		switch t.Kind {
		case "(", "[", "{":
			stack = append(stack, open{i, -1})
		case ",":
			if len(stack) > 0 {
				stack[len(stack)-1].lastComma = i
			}
		case ")", "]", "}":
			if len(stack) == 0 {
				continue
			}
			o := stack[len(stack)-1]
			stack = stack[:len(stack)-1]
			first := o.tok + 1
			if o.lastComma >= 0 {
				first = o.lastComma + 1
			}
			if first >= i {
				continue // empty group or trailing comma
			}
			elem := text[lx.Toks[first].Pos:lx.Toks[i-1].End]
			if len(elem) > 200 {
				continue
			}
			var sb strings.Builder
			sb.WriteString(text[:lx.Toks[i-1].End])
			for k := 0; k < n; k++ {
				sb.WriteString(", ")
				sb.WriteString(elem)
			}
			sb.WriteString(text[lx.Toks[i-1].End:])
			f(sb.String())
		}
	}
}

// SystematicSwaps yields, for every token position, the text with the run of a tokens starting there (a = 2, 3)
// exchanged with the run of b tokens that follows it (b = 1, 2, 3): two adjacent clauses in the other order
// (single-token moves are SystematicMoves).
func SystematicSwaps(text string, f func(mutant string)) {
	lx := reflex.Lex(text)
	if lx.Status != reflex.Accept {
		return
	}
	n := len(lx.Toks)
	for i := 0; i < n; i++ {
		for a := 2; a <= 3; a++ {
			for b := 1; b <= 3 && i+a+b <= n; b++ {
				A := text[lx.Toks[i].Pos:lx.Toks[i+a-1].End]
				B := text[lx.Toks[i+a].Pos:lx.Toks[i+a+b-1].End]
				f(text[:lx.Toks[i].Pos] + B + " " + A + text[lx.Toks[i+a+b-1].End:])
			}
		}
	}
}
