package gen

import (
	"sort"
	"sync"
)

// StartSymbols are the start symbols of G (= entry points).
var StartSymbols = []string{"expr", "type", "query", "dml", "ddl", "statement"}

var (
	sysOnce sync.Once
	sysSet  []Sentence
	sysCov  int
	sysAll  int
)

// SystematicSet returns the seed-independent each-choice set: sentences that together take every alternative of
// every production site of G (every optional clause on and off, every list at its three lengths, every operator,
// every statement kind). It is a pure function of the grammar.
func SystematicSet() (set []Sentence, covered, total int) {
	sysOnce.Do(func() {
		g := NewG(NewRand(12345, 1))
		const budget = 10
		for _, e := range StartSymbols {
			stale := 0
			for i := 0; i < 6000 && stale < 1500; i++ {
				before := len(g.Cov)
				s := g.Generate(e, budget)
				if len(g.Cov) > before {
					sysSet = append(sysSet, s)
					stale = 0
				} else {
					stale++
				}
			}
		}
		// forced pass for alternatives the random pass did not take
		for round := 0; round < 3; round++ {
			var sites []string
			for site := range g.Arity {
				sites = append(sites, site)
			}
			sort.Strings(sites)
			for _, site := range sites {
				for alt := 0; alt < g.Arity[site]; alt++ {
					if g.Cov[site+"#"+itoa(alt)] > 0 {
						continue
					}
				try:
					for t := 0; t < 40; t++ {
						for _, e := range StartSymbols {
							before := g.Cov[site+"#"+itoa(alt)]
							s, ok := g.GenerateForced(e, budget+4, site, alt)
							if ok && g.Cov[site+"#"+itoa(alt)] > before {
								sysSet = append(sysSet, s)
								break try
							}
						}
					}
				}
			}
		}
		for site, n := range g.Arity {
			for alt := 0; alt < n; alt++ {
				sysAll++
				if g.Cov[site+"#"+itoa(alt)] > 0 {
					sysCov++
				}
			}
		}
	})
	return sysSet, sysCov, sysAll
}
