package gen

import (
	"fmt"
	"math/rand/v2"
	"strings"
	"unicode/utf8"

	"verif/internal/reflex"
)

// RenderOpts selects the spelling policy.
type RenderOpts struct {
	Trivia int // 0 canonical (single blanks), 1 tight, 2 hostile
	Case   int // 0 upper, 1 lower, 2 random per word, 3 random per letter
	Quote  int // 0 canonical spelling of identifiers and literals, 1 random quoting style
}

var triviaPool = []string{
	" ", " ", "  ", "\t", "\n", "\r\n", " \n ", "/**/", "/* c */", " /* ; */ ", "-- c\n", "# c\n", "// c\n", "/* ' */", "/* \" ` */", "--\n", " -- ;'\"`\n ", "/*\n*/", "\n\n", " /* a */ /* b */ ", "\t-- x\n\t", "\f", "\v",
	// comment bodies made of the characters that open and close comments
	"/***/", "/* c **/", "/**** x ****/", "/*/*/", "/* /* */", "/*--*/", "/*#*/", "/* * / */", "/*\r*/", "--/*\n", "-- */\n", "#*/\n", "//--#\n", "--\r\n", "/* \\ */", "/* \u00e9 */", "-- \u00e9\n", "/*\n--\n*/", "#\n", "/*;*/",
}

func identShaped(s string) bool {
	if s == "" {
		return false
	}
	for i := 0; i < len(s); i++ {
		ch := s[i]
		ok := ch == '_' || (ch >= 'a' && ch <= 'z') || (ch >= 'A' && ch <= 'Z') || (i > 0 && ch >= '0' && ch <= '9')
		if !ok {
			return false
		}
	}
	return true
}

func caseWord(r *rand.Rand, w string, mode int) string {
	switch mode {
	case 0:
		return w
	case 1:
		return strings.ToLower(w)
	case 2:
		switch r.IntN(3) {
		case 0:
			return w
		case 1:
			return strings.ToLower(w)
		}
		return strings.ToUpper(w[:1]) + strings.ToLower(w[1:])
	}
	b := []byte(w)
	for i := range b {
		if r.IntN(2) == 0 && b[i] >= 'A' && b[i] <= 'Z' {
			b[i] += 32
		}
	}
	return string(b)
}

// escapeBody renders value inside a non-raw literal delimited by q (one char repeated n times).
// unicodeOK: \u escapes allowed (strings / identifiers); random: vary the escape style.
func escapeBody(r *rand.Rand, value string, q byte, triple, unicodeOK, random bool) string {
	var sb strings.Builder
	for i := 0; i < len(value); {
		ch := value[i]
		if ch < 0x80 {
			i++
			switch {
			case ch == q:
				sb.WriteByte('\\')
				sb.WriteByte(ch)
			case ch == '\\':
				sb.WriteString(`\\`)
			case ch == '\n':
				if triple && random && r.IntN(2) == 0 {
					sb.WriteByte('\n')
				} else {
					sb.WriteString(`\n`)
				}
			case ch == '\r':
				sb.WriteString(`\r`)
			case ch == '\t':
				if random && r.IntN(2) == 0 {
					sb.WriteByte('\t')
				} else {
					sb.WriteString(`\t`)
				}
			case ch == '"' || ch == '\'' || ch == '`' || ch == '?':
				if random && r.IntN(3) == 0 {
					sb.WriteByte('\\')
				}
				sb.WriteByte(ch)
			case ch < 0x20 || ch == 0x7f:
				switch {
				case ch == 7 && random && r.IntN(2) == 0:
					sb.WriteString(`\a`)
				case ch == 8 && random && r.IntN(2) == 0:
					sb.WriteString(`\b`)
				case ch == 12 && random && r.IntN(2) == 0:
					sb.WriteString(`\f`)
				case ch == 11 && random && r.IntN(2) == 0:
					sb.WriteString(`\v`)
				case random && r.IntN(2) == 0:
					fmt.Fprintf(&sb, `\%03o`, ch)
				case random && r.IntN(2) == 0:
					fmt.Fprintf(&sb, `\X%02X`, ch)
				default:
					fmt.Fprintf(&sb, `\x%02x`, ch)
				}
			default:
				if random && r.IntN(12) == 0 {
					switch r.IntN(3) {
					case 0:
						fmt.Fprintf(&sb, `\x%02x`, ch)
					case 1:
						fmt.Fprintf(&sb, `\%03o`, ch)
					default:
						if unicodeOK {
							fmt.Fprintf(&sb, `\u%04x`, ch)
						} else {
							fmt.Fprintf(&sb, `\x%02X`, ch)
						}
					}
				} else {
					sb.WriteByte(ch)
				}
			}
			continue
		}
		rn, size := utf8.DecodeRuneInString(value[i:])
		if rn == utf8.RuneError && size == 1 {
			// invalid UTF-8 byte
			if random && r.IntN(2) == 0 {
				sb.WriteByte(ch)
			} else {
				fmt.Fprintf(&sb, `\x%02x`, ch)
			}
			i++
			continue
		}
		if unicodeOK && random && r.IntN(3) == 0 {
			if rn > 0xFFFF || r.IntN(2) == 0 {
				fmt.Fprintf(&sb, `\U%08x`, rn)
			} else {
				fmt.Fprintf(&sb, `\u%04X`, rn)
			}
		} else if !unicodeOK && random && r.IntN(3) == 0 {
			for k := 0; k < size; k++ {
				fmt.Fprintf(&sb, `\x%02x`, value[i+k])
			}
		} else {
			sb.WriteString(value[i : i+size])
		}
		i += size
	}
	return sb.String()
}

func renderString(r *rand.Rand, value string, bytes bool, random bool) string {
	prefix := ""
	if bytes {
		prefix = "b"
	}
	if !random {
		q := byte('"')
		if strings.Contains(value, "\"") && !strings.Contains(value, "'") {
			q = '\''
		}
		return prefix + string(q) + escapeBody(r, value, q, false, !bytes, false) + string(q)
	}
	if bytes && r.IntN(2) == 0 {
		prefix = "B"
	}
	q := byte('"')
	if r.IntN(2) == 0 {
		q = '\''
	}
	triple := r.IntN(3) == 0
	delim := string(q)
	if triple {
		delim = strings.Repeat(string(q), 3)
	}
	// raw form when the value allows it
	rawOK := !strings.ContainsAny(value, "\\\n\r") && !strings.Contains(value, string(q))
	if rawOK && r.IntN(3) == 0 {
		rp := []string{"r", "R"}[r.IntN(2)]
		if bytes {
			rp = []string{"rb", "br", "Rb", "bR", "RB", "BR"}[r.IntN(6)]
		}
		return rp + delim + value + delim
	}
	return prefix + delim + escapeBody(r, value, q, triple, !bytes, true) + delim
}

func renderIdent(r *rand.Rand, name string, random bool) string {
	if identShaped(name) && !reflex.IsReserved(name) && !(random && r.IntN(6) == 0) {
		return name
	}
	return "`" + escapeBody(r, name, '`', false, true, random) + "`"
}

func renderTok(r *rand.Rand, t Tok, o RenderOpts) string {
	switch t.Role {
	case KW, PKW:
		return caseWord(r, t.Text, o.Case)
	case ID:
		if t.Quote {
			return "`" + escapeBody(r, t.Text, '`', false, true, o.Quote == 1) + "`"
		}
		return renderIdent(r, t.Text, o.Quote == 1)
	case STR:
		return renderString(r, t.Text, false, o.Quote == 1)
	case BYTES:
		return renderString(r, t.Text, true, o.Quote == 1)
	case PARAM:
		return "@" + t.Text
	}
	return t.Text
}

// fuses reports whether writing a and b without a separator changes the token sequence.
func fuses(a, b string) bool {
	la, lb := reflex.Lex(a), reflex.Lex(b)
	lab := reflex.Lex(a + b)
	if la.Status != reflex.Accept || lb.Status != reflex.Accept || lab.Status != reflex.Accept {
		return true
	}
	if len(lab.Toks) != len(la.Toks)+len(lb.Toks) {
		return true
	}
	for i, t := range la.Toks {
		if lab.Toks[i].Kind != t.Kind || lab.Toks[i].End != t.End {
			return true
		}
	}
	for i, t := range lb.Toks {
		u := lab.Toks[len(la.Toks)+i]
		if u.Kind != t.Kind || u.End-u.Pos != t.End-t.Pos {
			return true
		}
	}
	return false
}

// Render turns a sentence into text.
func Render(r *rand.Rand, s Sentence, o RenderOpts) string {
	var sb strings.Builder
	prev := ""
	afterDotPlain := false
	for i, t := range s.Toks {
		cur := renderTok(r, t, o)
		// "after '.', an identifier-like run (even a keyword) is an identifier": write such a name unquoted sometimes
		afterDotPlain = false
		if t.Role == ID && i >= 2 && s.Toks[i-1].Role == PUNCT && s.Toks[i-1].Text == "." && identShaped(t.Text) && reflex.IsReserved(t.Text) && r.IntN(2) == 0 {
			if p := s.Toks[i-2]; p.Role == ID || p.Role == PARAM || (p.Role == PUNCT && (p.Text == ")" || p.Text == "]")) {
				cur = t.Text
				afterDotPlain = true
			}
		}
		if i > 0 {
			hintBrace := t.Role == PUNCT && t.Text == "{" && s.Toks[i-1].Role == PUNCT && s.Toks[i-1].Text == "@"
			switch {
			case hintBrace, afterDotPlain:
			case o.Trivia == 0:
				sb.WriteByte(' ')
			case o.Trivia == 1:
				if fuses(prev, cur) || dotContext(s.Toks, i) {
					sb.WriteByte(' ')
				}
			default:
				tr := ""
				switch r.IntN(4) {
				case 0:
				case 1:
					tr = " "
				default:
					tr = triviaPool[r.IntN(len(triviaPool))]
				}
				if tr == "" && (fuses(prev, cur) || dotContext(s.Toks, i)) {
					tr = " "
				}
				sb.WriteString(tr)
			}
		}
		sb.WriteString(cur)
		prev = cur
	}
	if o.Trivia == 2 && r.IntN(3) == 0 {
		sb.WriteString([]string{"\n", " ", " -- end", "/* end */", "\n-- c\n"}[r.IntN(5)])
	}
	return sb.String()
}

// dotContext: keep a blank out of "a . b" decisions that depend on more than two tokens (handled by the re-lex guard anyway).
func dotContext(toks []Tok, i int) bool { return false }

// RelexGuard lexes text with the reference lexer and reports whether its token sequence is the generated one.
func RelexGuard(text string, s Sentence) bool {
	lx := reflex.Lex(text)
	if lx.Status != reflex.Accept {
		return false
	}
	k := 0
	for _, t := range lx.Toks {
		if k >= len(s.Toks) {
			return false
		}
		g := s.Toks[k]
		// a fused ">>" or "<>" may stand for two generated tokens
		if (t.Kind == ">>" || t.Kind == "<>") && g.Role == PUNCT && g.Text != t.Kind {
			if k+1 < len(s.Toks) && g.Text == t.Kind[:1] && s.Toks[k+1].Role == PUNCT && s.Toks[k+1].Text == t.Kind[1:] {
				k += 2
				continue
			}
			return false
		}
		switch g.Role {
		case KW:
			if t.Kind != g.Text {
				return false
			}
		case PKW:
			if t.Kind != reflex.KIdent || t.Quoted || !asciiEqualFold(t.Value, g.Text) {
				return false
			}
		case ID:
			if t.Kind != reflex.KIdent || t.Value != g.Text {
				return false
			}
		case STR:
			if t.Kind != reflex.KString || t.Value != g.Text {
				return false
			}
		case BYTES:
			if t.Kind != reflex.KBytes || t.Value != g.Text {
				return false
			}
		case INT:
			if t.Kind != reflex.KInt || text[t.Pos:t.End] != g.Text {
				return false
			}
		case FLOAT:
			if t.Kind != reflex.KFloat || text[t.Pos:t.End] != g.Text {
				return false
			}
		case PARAM:
			if t.Kind != reflex.KParam || t.Value != g.Text {
				return false
			}
		case PUNCT:
			if t.Kind != g.Text {
				return false
			}
		}
		k++
	}
	return k == len(s.Toks)
}

// Respell re-renders an arbitrary accepted text (roles unknown): trivia is replaced and reserved
// keywords are re-cased; every other token keeps its exact spelling. Returns "" if the text does not lex
// or the re-spelling does not re-lex to the same token sequence.
func Respell(r *rand.Rand, text string, o RenderOpts) string {
	lx := reflex.Lex(text)
	if lx.Status != reflex.Accept || len(lx.Toks) == 0 {
		return ""
	}
	var sb strings.Builder
	prev := ""
	for i, t := range lx.Toks {
		cur := text[t.Pos:t.End]
		if reflex.IsReserved(t.Kind) && t.Kind != reflex.KIdent {
			cur = caseWord(r, t.Kind, o.Case)
		}
		if i > 0 {
			hadTrivia := t.HadTrivia
			tr := ""
			switch {
			case o.Trivia == 0:
				tr = " "
			case o.Trivia == 1:
				if fuses(prev, cur) {
					tr = " "
				}
			default:
				switch r.IntN(4) {
				case 0:
				case 1:
					tr = " "
				default:
					tr = triviaPool[r.IntN(len(triviaPool))]
				}
				if tr == "" && fuses(prev, cur) {
					tr = " "
				}
			}
			// never create or remove trivia next to a '.' (the documentation is silent on it)
			if cur == "." || prev == "." || (cur == "{" && prev == "@") {
				if hadTrivia {
					tr = " "
				} else {
					tr = ""
				}
			}
			sb.WriteString(tr)
		}
		sb.WriteString(cur)
		prev = cur
	}
	out := sb.String()
	l2 := reflex.Lex(out)
	if l2.Status != reflex.Accept || len(l2.Toks) != len(lx.Toks) {
		return ""
	}
	for i := range l2.Toks {
		a, b := lx.Toks[i], l2.Toks[i]
		if a.Kind != b.Kind || a.Value != b.Value || a.Base != b.Base {
			return ""
		}
		if a.Kind == reflex.KInt || a.Kind == reflex.KFloat {
			if text[a.Pos:a.End] != out[b.Pos:b.End] {
				return ""
			}
		}
	}
	return out
}
