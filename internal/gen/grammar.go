package gen

import (
	"math/rand/v2"
	"sort"
	"strings"
)

// Grammar G: a grammar-directed sentence generator for the Spanner GoogleSQL dialect,
// written from the documentation (query syntax, expressions, lexical structure, data types,
// DML, DDL), restricted to the statement kinds memefish implements (see SCOPE.md).
// Productions emit role-tagged tokens; rendering to text happens in render.go.

type Role uint8

const (
	KW    Role = iota // reserved keyword
	PKW               // pseudo keyword (identifier with a grammatical role)
	ID                // identifier (Text = name)
	STR               // string literal (Text = value)
	BYTES             // bytes literal (Text = value)
	INT               // integer literal (Text = spelling)
	FLOAT             // floating point literal (Text = spelling)
	PARAM             // query parameter (Text = name)
	PUNCT             // punctuation
)

type Tok struct {
	Role  Role
	Text  string
	Quote bool // identifier that must be written back-quoted (a name that spells a pseudo-keyword)
}

// Sentence is a generated sentence with its start symbol (= entry point).
type Sentence struct {
	Entry string
	Toks  []Tok
}

type G struct {
	r      *rand.Rand
	toks   []Tok
	budget int
	// PKWNames: identifiers may be (back-quoted) names that spell a pseudo-keyword, e.g. `synonym`, `value`.
	// Off for the properties that compare SQL() output (known finding K4).
	PKWNames bool
	// bareFrom: the query expression being generated contains a pipe-syntax FROM term at its own level
	// (ORDER BY / LIMIT / FOR UPDATE directly after it are not part of the scope, see SCOPE.md)
	bareFrom       bool
	noLeadingParen bool
	// coverage of (site, alternative) and number of alternatives per site
	Cov   map[string]int
	Arity map[string]int
	// forced choice for systematic mode
	forceSite string
	forceAlt  int
	forced    bool
}

func NewG(r *rand.Rand) *G { return &G{r: r, Cov: map[string]int{}, Arity: map[string]int{}} }

// --- token emitters

func (g *G) kw(ws ...string) {
	for _, w := range ws {
		g.toks = append(g.toks, Tok{Role: KW, Text: w})
	}
}
func (g *G) pkw(ws ...string) {
	for _, w := range ws {
		if !PseudoKeywords[w] {
			panic("gen: " + w + " is not in PseudoKeywords")
		}
		g.toks = append(g.toks, Tok{Role: PKW, Text: w})
	}
}
func (g *G) p(ps ...string) {
	for _, s := range ps {
		g.toks = append(g.toks, Tok{Role: PUNCT, Text: s})
	}
}
func (g *G) tok(r Role, text string) { g.toks = append(g.toks, Tok{Role: r, Text: text}) }

// --- choice source

func (g *G) pick(site string, n int) int {
	g.Arity[site] = n
	var k int
	if g.forceSite == site && !g.forced {
		k = g.forceAlt % n
		g.forced = true
	} else if g.budget <= 0 {
		k = 0
	} else {
		k = g.r.IntN(n)
	}
	g.Cov[site+"#"+itoa(k)]++
	return k
}

// pickLeafy is pick for sites whose first alternatives are cheap: when the budget is exhausted it stays in [0,leaf).
func (g *G) pickLeafy(site string, n, leaf int) int {
	g.Arity[site] = n
	var k int
	if g.forceSite == site && !g.forced {
		k = g.forceAlt % n
		g.forced = true
	} else if g.budget <= 0 {
		k = g.r.IntN(leaf)
	} else {
		k = g.r.IntN(n)
	}
	g.Cov[site+"#"+itoa(k)]++
	return k
}

func (g *G) opt(site string) bool { return g.pick(site, 2) == 1 }

// listLen picks a list length among {min, min+1, 3}.
func (g *G) listLen(site string, min int) int {
	switch g.pick(site, 3) {
	case 0:
		return min
	case 1:
		return min + 1
	}
	if min > 3 {
		return min
	}
	return 3
}

func (g *G) commaList(site string, min int, item func()) {
	n := g.listLen(site, min)
	for i := 0; i < n; i++ {
		if i > 0 {
			g.p(",")
		}
		item()
	}
}

func itoa(i int) string {
	if i < 10 {
		return string(rune('0' + i))
	}
	return itoa(i/10) + string(rune('0'+i%10))
}

// --- lexical pools

var plainNames = []string{"a", "b", "c", "t", "x", "y", "col1", "Singers", "Albums", "_x", "tbl1", "FirstName", "id", "v", "k", "foo", "bar_baz", "n"}
var quotedNames = []string{"a b", "1x", "select", "from", "é", "a`b", "a\\b", "a-b", "日本", "group", "x.y", "'q'", "a\"b", "\n", "NULL", "\ufffd", "a\ufffd", "\xff", "\u00a0", "😀", "\t", "?", "0", "_ _", "where", "order", "by", "as", "on", "join", "Select", "FROM", "and", "\xff\ufffd"}

func (g *G) name() string {
	if g.pickLeafy("name.kind", 8, 7) == 7 {
		return quotedNames[g.r.IntN(len(quotedNames))]
	}
	return plainNames[g.r.IntN(len(plainNames))]
}

func (g *G) ident() {
	if g.PKWNames && g.budget > 0 && g.r.IntN(12) == 0 {
		w := pkwList[g.r.IntN(len(pkwList))]
		if g.r.IntN(2) == 0 {
			w = strings.ToLower(w)
		}
		g.toks = append(g.toks, Tok{Role: ID, Text: w, Quote: true})
		return
	}
	g.tok(ID, g.name())
}

var pkwList []string // filled by init in norm.go

// path := ident {. ident}
func (g *G) path(site string) {
	n := 1 + g.pick(site+".pathlen", 3)
	for i := 0; i < n; i++ {
		if i > 0 {
			g.p(".")
		}
		g.ident()
	}
}

var strValues = []string{"", "a", "abc", "it's", "say \"hi\"", "both ' and \"", "back`tick", "back\\slash", "line1\nline2", "tab\there", "\r", "é", "日本語", "\x00", "\x7f", "\xff\xfe", "a;b", "-- not a comment", "/* nor this */", "%", "2020-01-01", "{\"a\": 1}", "'''", "\"\"\"", "\a\b\f\v", "?", "😀", "\u0085", "x'",
	"\ufffd", "a\ufffdb", "\u2028", "\ufeff", "\U0010ffff", "\ud7ff\ue000", "\x80", "\xc3", "\xed\xa0\x80", "\u00a0", "\u200b", "\\n", "\\", "\\'", "`", "``", "\"'`"}

var intSpellings = []string{"0", "1", "2", "7", "10", "42", "123", "1000", "0x0", "0x1F", "0XaB", "0xabcdef", "9223372036854775807", "00", "007"}
var floatSpellings = []string{"1.5", "0.5", ".5", "5.", "1e3", "1E3", "1e+3", "1e-3", "1.5e3", ".5e-3", "5.e3", "0.0", "123.456"}

func (g *G) intlit()   { g.tok(INT, intSpellings[g.r.IntN(len(intSpellings))]) }
func (g *G) decint()   { g.tok(INT, []string{"0", "1", "2", "10", "1000", "30"}[g.r.IntN(6)]) }
func (g *G) floatlit() { g.tok(FLOAT, floatSpellings[g.r.IntN(len(floatSpellings))]) }
func (g *G) strlit()   { g.tok(STR, g.strval()) }
func (g *G) byteslit() { g.tok(BYTES, g.strval()) }
func (g *G) param() {
	g.tok(PARAM, []string{"p", "param1", "_p", "P2", "limit", "select"}[g.r.IntN(6)])
}

// ===========================================================================
// Types

var scalarTypes = []string{"BOOL", "INT64", "FLOAT32", "FLOAT64", "DATE", "TIMESTAMP", "NUMERIC", "STRING", "BYTES", "JSON", "TOKENLIST"}

func (g *G) typ() {
	g.budget--
	switch g.pickLeafy("type", 4, 2) {
	case 0:
		g.pkw(scalarTypes[g.pick("type.scalar", len(scalarTypes))])
	case 1: // named type (proto / enum)
		g.namedType()
	case 2:
		g.kw("ARRAY")
		g.p("<")
		g.typ()
		g.p(">")
	case 3:
		g.kw("STRUCT")
		g.p("<")
		n := g.pick("type.struct.len", 4)
		for i := 0; i < n; i++ {
			if i > 0 {
				g.p(",")
			}
			if g.opt("type.struct.fieldname") {
				g.tok(ID, plainNames[g.r.IntN(len(plainNames))])
			}
			g.typ()
		}
		g.p(">")
	}
}

func (g *G) namedType() {
	// names that spell a simple type are excluded (they would be simple types)
	n := 1 + g.pick("namedtype.len", 3)
	for i := 0; i < n; i++ {
		if i > 0 {
			g.p(".")
		}
		g.tok(ID, []string{"examples", "music", "SingerInfo", "Proto", "pkg", "Enum1", "my proto"}[g.r.IntN(7)])
	}
}

// ===========================================================================
// Expressions (layered by the documented precedence table)

func (g *G) expr() {
	g.budget--
	g.orExpr()
}

func (g *G) orExpr() {
	g.andExpr()
	for g.budget > 0 && g.pick("or.more", 5) == 4 {
		g.kw("OR")
		g.andExpr()
	}
}

func (g *G) andExpr() {
	g.notExpr()
	for g.budget > 0 && g.pick("and.more", 5) == 4 {
		g.kw("AND")
		g.notExpr()
	}
}

func (g *G) notExpr() {
	if g.budget > 0 && g.pick("not", 8) == 7 {
		g.kw("NOT")
	}
	g.cmpExpr()
}

var cmpOps = []string{"=", "!=", "<>", "<", "<=", ">", ">="}

func (g *G) cmpExpr() {
	g.bitOr()
	if g.budget <= 0 {
		return
	}
	switch g.pick("cmp", 12) {
	case 6:
		g.p(cmpOps[g.pick("cmp.op", len(cmpOps))])
		g.bitOr()
	case 7:
		if g.opt("like.not") {
			g.kw("NOT")
		}
		g.kw("LIKE")
		g.bitOr()
	case 8:
		if g.opt("in.not") {
			g.kw("NOT")
		}
		g.kw("IN")
		switch g.pick("in.rhs", 3) {
		case 0:
			g.p("(")
			g.commaList("in.values", 1, g.expr)
			g.p(")")
		case 1:
			g.kw("UNNEST")
			g.p("(")
			g.expr()
			g.p(")")
		case 2:
			g.p("(")
			g.noLeadingParen = true
			g.query()
			g.p(")")
		}
	case 9:
		if g.opt("between.not") {
			g.kw("NOT")
		}
		g.kw("BETWEEN")
		g.bitOr()
		g.kw("AND")
		g.bitOr()
	case 10:
		g.kw("IS")
		if g.opt("is.not") {
			g.kw("NOT")
		}
		g.kw([]string{"NULL", "TRUE", "FALSE"}[g.pick("is.what", 3)])
	}
}

func (g *G) binLevel(site string, ops []string, next func()) {
	next()
	for g.budget > 0 && g.pick(site+".more", 6) == 5 {
		g.p(ops[g.pick(site+".op", len(ops))])
		next()
	}
}

func (g *G) bitOr()  { g.binLevel("bitor", []string{"|"}, g.bitXor) }
func (g *G) bitXor() { g.binLevel("bitxor", []string{"^"}, g.bitAnd) }
func (g *G) bitAnd() { g.binLevel("bitand", []string{"&"}, g.shift) }
func (g *G) shift()  { g.binLevel("shift", []string{"<<", ">>"}, g.addSub) }
func (g *G) addSub() { g.binLevel("addsub", []string{"+", "-"}, g.mulDiv) }
func (g *G) mulDiv() { g.binLevel("muldiv", []string{"*", "/", "||"}, g.unary) }

func (g *G) unary() {
	if g.budget > 0 && g.pick("unary", 8) == 7 {
		g.p([]string{"+", "-", "~"}[g.pick("unary.op", 3)])
		g.unary()
		return
	}
	g.postfix()
}

var subscriptKw = []string{"OFFSET", "ORDINAL", "SAFE_OFFSET", "SAFE_ORDINAL"}

func (g *G) postfix() {
	if g.budget > 0 && g.pick("postfix", 6) == 5 {
		// base that can take .field / [index]
		g.postfixBase()
		n := 1 + g.pick("postfix.n", 2)
		for i := 0; i < n; i++ {
			switch g.pick("postfix.kind", 3) {
			case 0:
				g.p(".")
				g.tok(ID, plainNames[g.r.IntN(len(plainNames))])
			case 1:
				g.p("[")
				g.expr()
				g.p("]")
			case 2:
				g.p("[")
				g.pkw(subscriptKw[g.pick("postfix.kw", 4)])
				g.p("(")
				g.expr()
				g.p(")")
				g.p("]")
			}
		}
		return
	}
	g.primary()
}

func (g *G) postfixBase() {
	switch g.pick("postfix.base", 6) {
	case 0:
		g.ident()
	case 1:
		g.param()
	case 2:
		g.call()
	case 3:
		g.p("(")
		g.expr()
		g.p(")")
	case 4:
		g.p("(")
		g.noLeadingParen = true
		g.query()
		g.p(")")
	case 5:
		g.arrayLit()
	}
}

func (g *G) primary() {
	const leaf = 9
	switch g.pickLeafy("primary", 30, leaf) {
	case 0:
		g.ident()
	case 1:
		g.path("primary")
	case 2:
		g.param()
	case 3:
		g.intlit()
	case 4:
		g.floatlit()
	case 5:
		g.strlit()
	case 6:
		g.byteslit()
	case 7:
		g.kw([]string{"NULL", "TRUE", "FALSE"}[g.pick("primary.const", 3)])
	case 8:
		g.pkw([]string{"DATE", "TIMESTAMP", "NUMERIC", "JSON"}[g.pick("primary.typedlit", 4)])
		g.strlit()
	case 9:
		g.call()
	case 10:
		g.pkw("COUNT")
		g.p("(", "*", ")")
	case 11:
		if g.opt("cast.safe") {
			g.pkw("SAFE_CAST")
		} else {
			g.kw("CAST")
		}
		g.p("(")
		g.expr()
		g.kw("AS")
		g.typ()
		g.p(")")
	case 12:
		g.kw("EXTRACT")
		g.p("(")
		g.tok(ID, []string{"DAY", "YEAR", "MONTH", "HOUR", "DAYOFWEEK", "ISOWEEK", "day"}[g.r.IntN(7)])
		g.kw("FROM")
		g.expr()
		if g.opt("extract.tz") {
			g.kw("AT")
			g.pkw("TIME", "ZONE")
			g.expr()
		}
		g.p(")")
	case 13:
		g.kw("CASE")
		if g.opt("case.operand") {
			g.expr()
		}
		n := g.listLen("case.whens", 1)
		for i := 0; i < n; i++ {
			g.kw("WHEN")
			g.expr()
			g.kw("THEN")
			g.expr()
		}
		if g.opt("case.else") {
			g.kw("ELSE")
			g.expr()
		}
		g.kw("END")
	case 14:
		g.kw("IF")
		g.p("(")
		g.expr()
		g.p(",")
		g.expr()
		g.p(",")
		g.expr()
		g.p(")")
	case 15:
		g.p("(")
		g.expr()
		g.p(")")
	case 16:
		g.p("(")
		g.noLeadingParen = true
		g.query()
		g.p(")")
	case 17:
		g.kw("ARRAY")
		g.p("(")
		g.query()
		g.p(")")
	case 18:
		g.kw("EXISTS")
		if g.opt("exists.hint") {
			g.hint()
		}
		g.p("(")
		g.query()
		g.p(")")
	case 19:
		g.arrayLit()
	case 20: // tuple struct
		g.p("(")
		g.commaList("tuple", 2, g.expr)
		g.p(")")
	case 21: // typeless struct
		g.kw("STRUCT")
		g.p("(")
		n := g.pick("struct.typeless.len", 4)
		for i := 0; i < n; i++ {
			if i > 0 {
				g.p(",")
			}
			g.expr()
			if g.opt("struct.typeless.as") {
				g.kw("AS")
				g.ident()
			}
		}
		g.p(")")
	case 22: // typed struct
		g.kw("STRUCT")
		g.p("<")
		n := g.pick("struct.typed.len", 3)
		for i := 0; i < n; i++ {
			if i > 0 {
				g.p(",")
			}
			if g.opt("struct.typed.fieldname") {
				g.tok(ID, plainNames[g.r.IntN(len(plainNames))])
			}
			g.typ()
		}
		g.p(">")
		g.p("(")
		for i := 0; i < n; i++ {
			if i > 0 {
				g.p(",")
			}
			g.expr()
		}
		g.p(")")
	case 23: // WITH expression
		g.kw("WITH")
		g.p("(")
		n := g.listLen("withexpr.vars", 1)
		for i := 0; i < n; i++ {
			g.ident()
			g.kw("AS")
			g.expr()
			g.p(",")
		}
		g.expr()
		g.p(")")
	case 24:
		g.pkw("REPLACE_FIELDS")
		g.p("(")
		g.expr()
		g.p(",")
		g.commaList("replacefields", 1, func() {
			g.expr()
			g.kw("AS")
			g.path("replacefields.field")
		})
		g.p(")")
	case 25: // NEW T(args)
		g.kw("NEW")
		g.namedType()
		g.p("(")
		n := g.pick("new.args", 4)
		for i := 0; i < n; i++ {
			if i > 0 {
				g.p(",")
			}
			g.expr()
			if g.opt("new.arg.as") {
				g.kw("AS")
				g.ident()
			}
		}
		g.p(")")
	case 26: // NEW T {...}
		g.kw("NEW")
		g.namedType()
		g.braced()
	case 27:
		g.braced()
	case 28: // INTERVAL-free date function with typed literal operand
		g.pkw("DATE")
		g.strlit()
	case 29:
		g.intlit()
	}
}

func (g *G) arrayLit() {
	switch g.pick("array.form", 3) {
	case 1:
		g.kw("ARRAY")
	case 2:
		g.kw("ARRAY")
		g.p("<")
		g.typ()
		g.p(">")
	}
	g.p("[")
	n := g.pick("array.len", 4)
	for i := 0; i < n; i++ {
		if i > 0 {
			g.p(",")
		}
		g.expr()
	}
	g.p("]")
}

// braced constructor: { field: expr [,] field { ... } ... }
func (g *G) braced() {
	g.budget--
	g.p("{")
	n := g.pick("braced.len", 4)
	for i := 0; i < n; i++ {
		if i > 0 && g.opt("braced.comma") {
			g.p(",")
		}
		g.tok(ID, plainNames[g.r.IntN(len(plainNames))])
		if g.budget > 0 && g.pick("braced.value", 3) == 2 {
			if g.opt("braced.nested.colon") {
				g.p(":")
			}
			g.braced()
		} else {
			g.p(":")
			g.expr()
		}
	}
	g.p("}")
}

func (g *G) call() {
	g.budget--
	// function name: path (plain names only, so that it is not a keyword-like form)
	n := 1 + g.pick("call.namelen", 2)
	for i := 0; i < n; i++ {
		if i > 0 {
			g.p(".")
		}
		g.tok(ID, []string{"f", "fn", "my_func", "ARRAY_LENGTH", "net", "SAFE", "abs", "Concat", "sum", "array_agg"}[g.r.IntN(10)])
	}
	g.p("(")
	if g.opt("call.distinct") {
		g.kw("DISTINCT")
		g.commaList("call.distinct.args", 1, g.expr)
	} else {
		nargs := g.pick("call.nargs", 4)
		for i := 0; i < nargs; i++ {
			if i > 0 {
				g.p(",")
			}
			g.arg()
		}
		if g.opt("call.named") {
			nn := 1 + g.pick("call.nnamed", 2)
			for i := 0; i < nn; i++ {
				if nargs > 0 || i > 0 {
					g.p(",")
				}
				g.tok(ID, plainNames[g.r.IntN(len(plainNames))])
				g.p("=>")
				g.expr()
			}
			nargs += nn
		}
		if nargs > 0 {
			switch g.pick("call.nullhandling", 4) {
			case 1:
				g.kw("IGNORE", "NULLS")
			case 2:
				g.kw("RESPECT", "NULLS")
			}
			switch g.pick("call.having", 4) {
			case 1:
				g.kw("HAVING")
				g.pkw("MAX")
				g.expr()
			case 2:
				g.kw("HAVING")
				g.pkw("MIN")
				g.expr()
			}
		}
	}
	g.p(")")
	if g.pick("call.hint", 6) == 5 {
		g.hint()
	}
}

func (g *G) arg() {
	switch g.pick("arg", 8) {
	case 5:
		g.kw("INTERVAL")
		g.expr()
		g.tok(ID, []string{"DAY", "MONTH", "YEAR", "HOUR", "day"}[g.r.IntN(5)])
	case 6:
		g.pkw("SEQUENCE")
		g.path("arg.sequence")
	case 7:
		if g.opt("lambda.paren") {
			g.p("(")
			g.commaList("lambda.params", 1, func() { g.tok(ID, plainNames[g.r.IntN(len(plainNames))]) })
			g.p(")")
		} else {
			g.tok(ID, plainNames[g.r.IntN(len(plainNames))])
		}
		g.p("->")
		g.expr()
	default:
		g.expr()
	}
}

func (g *G) hint() {
	g.p("@", "{")
	g.commaList("hint.records", 1, func() {
		g.path("hint.key")
		g.p("=")
		switch g.pick("hint.value", 4) {
		case 0:
			g.tok(ID, []string{"TRUE", "hash_join", "idx", "_BASE_TABLE", "APPLY_JOIN"}[g.r.IntN(5)])
		case 1:
			g.intlit()
		case 2:
			g.strlit()
		case 3:
			g.kw([]string{"TRUE", "FALSE", "NULL"}[g.r.IntN(3)])
		}
	})
	g.p("}")
}

// ===========================================================================
// Queries

func (g *G) query() {
	g.budget -= 2
	if g.budget > 0 && g.pick("query.with", 6) == 5 {
		g.noLeadingParen = false
		g.kw("WITH")
		g.commaList("with.ctes", 1, func() {
			g.ident()
			g.kw("AS")
			g.p("(")
			g.query()
			g.p(")")
		})
	}
	g.bareFrom = false
	g.queryExpr()
	bare := g.bareFrom
	g.bareFrom = false
	if !bare && g.pick("query.orderby", 5) == 4 {
		g.kw("ORDER", "BY")
		g.commaList("orderby.items", 1, func() {
			g.expr()
			if g.pick("orderby.collate", 5) == 4 {
				g.kw("COLLATE")
				if g.opt("collate.param") {
					g.param()
				} else {
					g.strlit()
				}
			}
			switch g.pick("orderby.dir", 3) {
			case 1:
				g.kw("ASC")
			case 2:
				g.kw("DESC")
			}
		})
	}
	if !bare && g.pick("query.limit", 5) == 4 {
		g.kw("LIMIT")
		g.intValue("limit.count")
		if g.opt("limit.offset") {
			g.pkw("OFFSET")
			g.intValue("limit.offset.value")
		}
	}
	if !bare && g.pick("query.forupdate", 10) == 9 {
		g.kw("FOR")
		g.pkw("UPDATE")
	}
	for g.budget > 0 && g.pick("query.pipe", 8) == 7 {
		g.p("|>")
		if g.opt("pipe.kind") {
			g.kw("WHERE")
			g.expr()
		} else {
			g.kw("SELECT")
			g.selectHead("pipe")
		}
	}
}

func (g *G) intValue(site string) {
	switch g.pick(site, 3) {
	case 0:
		g.intlit()
	case 1:
		g.param()
	case 2:
		g.kw("CAST")
		g.p("(")
		if g.opt(site + ".cast.param") {
			g.param()
		} else {
			g.intlit()
		}
		g.kw("AS")
		g.pkw("INT64")
		g.p(")")
	}
}

var setOps = []string{"UNION", "INTERSECT", "EXCEPT"}

func (g *G) queryExpr() {
	g.queryTerm()
	if g.budget > 0 && g.pick("setop", 6) == 5 {
		op := setOps[g.pick("setop.op", 3)]
		ad := []string{"ALL", "DISTINCT"}[g.pick("setop.ad", 2)]
		n := 1 + g.pick("setop.n", 2)
		for i := 0; i < n; i++ {
			g.kw(op, ad)
			g.queryTerm()
		}
	}
}

func (g *G) queryTerm() {
	k := g.pickLeafy("queryterm", 8, 6)
	if g.noLeadingParen && k == 6 {
		k = 0
	}
	g.noLeadingParen = false
	switch k {
	case 6:
		g.p("(")
		g.query()
		g.p(")")
	case 7:
		g.kw("FROM")
		g.fromClause()
		g.bareFrom = true
	default:
		g.selectStmt()
	}
}

func (g *G) selectHead(site string) {
	switch g.pick(site+".alldistinct", 4) {
	case 1:
		g.kw("ALL")
	case 2:
		g.kw("DISTINCT")
	}
	switch g.pick(site+".as", 6) {
	case 3:
		g.kw("AS", "STRUCT")
	case 4:
		g.kw("AS")
		g.pkw("VALUE")
	case 5:
		g.kw("AS")
		g.namedType()
	}
	g.commaList(site+".items", 1, g.selectItem)
}

func (g *G) selectItem() {
	switch g.pick("selectitem", 6) {
	case 0:
		g.p("*")
		g.starModifiers()
	case 1:
		g.postfixBaseForStar()
		g.p(".", "*")
		g.starModifiers()
	case 2, 3:
		g.expr()
	case 4:
		g.expr()
		g.kw("AS")
		g.ident()
	case 5:
		g.expr()
		g.tok(ID, plainNames[g.r.IntN(len(plainNames))])
	}
}

func (g *G) postfixBaseForStar() {
	switch g.pick("dotstar.base", 4) {
	case 0:
		g.ident()
	case 1:
		g.path("dotstar")
	case 2:
		// "expression.*": any expression; written without parentheses the operators apply first (a + b.* is (a + b).*)
		g.expr()
	case 3:
		g.postfixBase()
	}
}

func (g *G) starModifiers() {
	if g.pick("star.except", 4) == 3 {
		g.kw("EXCEPT")
		g.p("(")
		g.commaList("star.except.cols", 1, g.ident)
		g.p(")")
	}
	if g.pick("star.replace", 4) == 3 {
		g.pkw("REPLACE")
		g.p("(")
		g.commaList("star.replace.items", 1, func() {
			g.expr()
			g.kw("AS")
			g.ident()
		})
		g.p(")")
	}
}

func (g *G) selectStmt() {
	g.kw("SELECT")
	g.selectHead("select")
	trailing := g.pick("select.trailingcomma", 8) == 7
	hasFrom := g.pick("select.from", 3) != 0
	if trailing && hasFrom {
		g.p(",")
	}
	if hasFrom {
		g.kw("FROM")
		g.fromClause()
	}
	if hasFrom && g.pick("select.where", 3) == 2 {
		g.kw("WHERE")
		g.expr()
	}
	if hasFrom && g.pick("select.groupby", 4) == 3 {
		g.kw("GROUP", "BY")
		g.commaList("groupby", 1, g.expr)
		if g.opt("select.having") {
			g.kw("HAVING")
			g.expr()
		}
	}
}

func (g *G) asAlias(site string) {
	switch g.pick(site, 3) {
	case 1:
		g.kw("AS")
		g.ident()
	case 2:
		g.tok(ID, plainNames[g.r.IntN(len(plainNames))])
	}
}

func (g *G) tableSample() {
	g.kw("TABLESAMPLE")
	g.pkw([]string{"BERNOULLI", "RESERVOIR"}[g.pick("tablesample.method", 2)])
	g.p("(")
	switch g.pick("tablesample.size", 4) {
	case 0:
		g.intlit()
	case 1:
		g.floatlit()
	case 2:
		g.param()
	case 3:
		g.kw("CAST")
		g.p("(")
		g.intlit()
		g.kw("AS")
		g.pkw([]string{"INT64", "FLOAT64"}[g.pick("tablesample.casttype", 2)])
		g.p(")")
	}
	if g.opt("tablesample.unit") {
		g.pkw("PERCENT")
	} else {
		g.kw("ROWS")
	}
	g.p(")")
}

func (g *G) withOffset() {
	g.kw("WITH")
	g.pkw("OFFSET")
	g.asAlias("withoffset.alias")
}

func (g *G) tablePrimary() {
	switch g.pickLeafy("tableprimary", 7, 3) {
	case 0: // table name
		g.ident()
		if g.pick("table.hint", 5) == 4 {
			g.hint()
		}
		g.asAlias("table.alias")
		if g.pick("table.sample", 8) == 7 {
			g.tableSample()
		}
	case 1: // path (named schema table or implicit unnest)
		g.ident()
		g.p(".")
		g.ident()
		if g.opt("pathtable.more") {
			g.p(".")
			g.ident()
		}
		if g.pick("pathtable.hint", 5) == 4 {
			g.hint()
		}
		g.asAlias("pathtable.alias")
		if g.pick("pathtable.withoffset", 5) == 4 {
			g.withOffset()
		}
	case 2: // UNNEST
		g.kw("UNNEST")
		g.p("(")
		g.expr()
		g.p(")")
		if g.pick("unnest.hint", 6) == 5 {
			g.hint()
		}
		g.asAlias("unnest.alias")
		if g.pick("unnest.withoffset", 4) == 3 {
			g.withOffset()
		}
	case 3: // subquery (its text does not start with a second parenthesis: "((" is a parenthesized join, see SCOPE.md)
		g.p("(")
		g.noLeadingParen = true
		g.query()
		g.p(")")
		g.asAlias("subquerytable.alias")
		if g.pick("subquerytable.sample", 8) == 7 {
			g.tableSample()
		}
	case 4: // parenthesized join (a comma join cannot be parenthesized)
		g.p("(")
		g.tablePrimary()
		g.joinOp(false)
		g.p(")")
	case 5, 6: // table-valued function
		g.tvfCall()
	}
}

func (g *G) tvfCall() {
	n := 1 + g.pick("tvf.namelen", 2)
	for i := 0; i < n; i++ {
		if i > 0 {
			g.p(".")
		}
		g.tok(ID, []string{"tvf", "ML", "PREDICT", "my_tvf", "READ_t"}[g.r.IntN(5)])
	}
	g.p("(")
	nargs := g.pick("tvf.nargs", 4)
	for i := 0; i < nargs; i++ {
		if i > 0 {
			g.p(",")
		}
		g.tvfArg()
	}
	if g.opt("tvf.named") {
		if nargs > 0 {
			g.p(",")
		}
		g.tok(ID, plainNames[g.r.IntN(len(plainNames))])
		g.p("=>")
		g.expr()
	}
	g.p(")")
	if g.pick("tvf.hint", 5) == 4 {
		g.hint()
	}
	if g.pick("tvf.sample", 5) == 4 {
		g.tableSample()
	}
}

func (g *G) tvfArg() {
	switch g.pick("tvfarg", 4) {
	case 2:
		g.pkw("TABLE")
		g.path("tvfarg.table")
	case 3:
		g.pkw("MODEL")
		g.path("tvfarg.model")
	default:
		g.expr()
	}
}

func (g *G) join() { g.joinOp(true) }

func (g *G) joinOp(commaOK bool) {
	kind := g.pick("join.kind", 8)
	if kind == 0 && !commaOK {
		kind = 1
	}
	if kind == 0 {
		g.p(",")
		g.tablePrimary()
		return
	}
	needCond := true
	switch kind {
	case 1:
	case 2:
		g.kw("INNER")
	case 3:
		g.kw("CROSS")
		needCond = false
	case 4:
		g.kw("FULL")
		if g.opt("join.full.outer") {
			g.kw("OUTER")
		}
	case 5:
		g.kw("LEFT")
		if g.opt("join.left.outer") {
			g.kw("OUTER")
		}
	case 6:
		g.kw("RIGHT")
		if g.opt("join.right.outer") {
			g.kw("OUTER")
		}
	case 7:
		g.kw("LEFT", "OUTER")
	}
	if kind != 3 {
		switch g.pick("join.method", 5) {
		case 3:
			g.kw("HASH")
		case 4:
			g.kw("LOOKUP")
		}
	}
	g.kw("JOIN")
	if g.pick("join.hint", 5) == 4 {
		g.hint()
	}
	g.tablePrimary()
	if needCond {
		if g.pick("join.cond", 3) == 2 {
			g.kw("USING")
			g.p("(")
			g.commaList("join.using", 1, g.ident)
			g.p(")")
		} else {
			g.kw("ON")
			g.expr()
		}
	}
}

func (g *G) fromClause() {
	g.budget--
	g.tablePrimary()
	for g.budget > 0 && g.pick("from.join", 4) == 3 {
		g.join()
	}
}

// ===========================================================================
// DML

func (g *G) thenReturn() {
	g.kw("THEN")
	g.pkw("RETURN")
	if g.pick("thenreturn.withaction", 3) == 2 {
		g.kw("WITH")
		g.pkw("ACTION")
		if g.opt("thenreturn.withaction.as") {
			g.kw("AS")
			g.ident()
		}
	}
	first := true
	g.commaList("thenreturn.items", 1, func() {
		if !first {
			g.selectItem()
			return
		}
		first = false
		// the first item must not start with WITH (it would read as WITH ACTION; see SCOPE.md)
		start := len(g.toks)
		for try := 0; ; try++ {
			g.selectItem()
			if !(g.toks[start].Role == KW && g.toks[start].Text == "WITH") {
				break
			}
			g.toks = g.toks[:start]
			if try >= 4 {
				g.p("*")
				break
			}
		}
	})
}

func (g *G) dml() {
	if g.pick("dml.hint", 6) == 5 {
		g.hint()
	}
	switch g.pick("dml.kind", 3) {
	case 0:
		g.pkw("INSERT")
		switch g.pick("insert.or", 3) {
		case 1:
			g.kw("OR")
			g.pkw("UPDATE")
		case 2:
			g.kw("OR", "IGNORE")
		}
		if g.opt("insert.into") {
			g.kw("INTO")
		}
		g.path("insert.table")
		if g.pick("insert.tablehint", 6) == 5 {
			g.hint()
		}
		g.p("(")
		g.commaList("insert.columns", 1, g.ident)
		g.p(")")
		if g.opt("insert.input") {
			g.pkw("VALUES")
			g.commaList("insert.rows", 1, func() {
				g.p("(")
				g.commaList("insert.row", 1, func() {
					if g.pick("insert.default", 4) == 3 {
						g.kw("DEFAULT")
					} else {
						g.expr()
					}
				})
				g.p(")")
			})
		} else {
			g.query()
		}
		if g.pick("insert.thenreturn", 4) == 3 {
			g.thenReturn()
		}
	case 1:
		g.pkw("DELETE")
		if g.opt("delete.from") {
			g.kw("FROM")
		}
		g.path("delete.table")
		if g.pick("delete.tablehint", 6) == 5 {
			g.hint()
		}
		g.asAlias("delete.alias")
		g.kw("WHERE")
		g.expr()
		if g.pick("delete.thenreturn", 4) == 3 {
			g.thenReturn()
		}
	case 2:
		g.pkw("UPDATE")
		g.path("update.table")
		if g.pick("update.tablehint", 6) == 5 {
			g.hint()
		}
		g.asAlias("update.alias")
		g.kw("SET")
		g.commaList("update.items", 1, func() {
			g.path("update.item.path")
			g.p("=")
			if g.pick("update.default", 4) == 3 {
				g.kw("DEFAULT")
			} else {
				g.expr()
			}
		})
		g.kw("WHERE")
		g.expr()
		if g.pick("update.thenreturn", 4) == 3 {
			g.thenReturn()
		}
	}
}

// ===========================================================================
// Statements

func (g *G) statement() {
	switch g.pick("statement", 8) {
	case 0, 1, 2:
		g.queryStatement()
	case 3, 4:
		g.dml()
	case 5, 6:
		g.ddl()
	case 7:
		g.callStmt()
	}
}

func (g *G) queryStatement() {
	if g.pick("querystmt.hint", 6) == 5 {
		g.hint()
	}
	g.query()
}

func (g *G) callStmt() {
	g.pkw("CALL")
	g.path("call.name")
	g.p("(")
	n := g.pick("callstmt.nargs", 4)
	for i := 0; i < n; i++ {
		if i > 0 {
			g.p(",")
		}
		g.tvfArg()
	}
	g.p(")")
}

// Generate produces one sentence for the given start symbol with a depth budget.
func (g *G) Generate(entry string, budget int) Sentence {
	g.toks = nil
	g.budget = budget
	switch entry {
	case "expr":
		g.expr()
	case "type":
		g.typ()
	case "query":
		g.queryStatement()
	case "dml":
		g.dml()
	case "ddl":
		g.ddl()
	case "statement":
		g.statement()
	default:
		panic("gen: unknown start symbol " + entry)
	}
	return Sentence{Entry: entry, Toks: g.toks}
}

// GenerateForced produces a sentence in which the first visit of site takes alternative alt.
func (g *G) GenerateForced(entry string, budget int, site string, alt int) (Sentence, bool) {
	g.forceSite, g.forceAlt, g.forced = site, alt, false
	s := g.Generate(entry, budget)
	ok := g.forced
	g.forceSite, g.forced = "", false
	return s, ok
}

// CovKeys returns the sorted list of covered (site#alt) keys.
func (g *G) CovKeys() []string {
	var ks []string
	for k := range g.Cov {
		ks = append(ks, k)
	}
	sort.Strings(ks)
	return ks
}

// Text of a token for debugging.
func (t Tok) String() string {
	switch t.Role {
	case STR:
		return "'" + t.Text + "'"
	case BYTES:
		return "b'" + t.Text + "'"
	case PARAM:
		return "@" + t.Text
	}
	return t.Text
}

func (s Sentence) Debug() string {
	var ss []string
	for _, t := range s.Toks {
		ss = append(ss, t.String())
	}
	return strings.Join(ss, " ")
}
