// Package gen holds the workload generators. Nothing here imports memefish.
package gen

import (
	"math/rand/v2"
	"strings"
)

// Alphabet is the 24-symbol alphabet of lexically significant bytes.
var Alphabet = []byte("abrex01_.'\"`\\-/*#\n +<>|@")

// EnumCount is the number of strings over Alphabet with length 0..L.
func EnumCount(L int) int {
	n, p := 0, 1
	for k := 0; k <= L; k++ {
		n += p
		p *= len(Alphabet)
	}
	return n
}

// EnumString returns the i-th string (shortlex order) over Alphabet.
func EnumString(i int, buf []byte) []byte {
	return EnumStringOver(Alphabet, i, buf)
}

// EnumStringOver returns the i-th string in shortlex order over alpha.
func EnumStringOver(alpha []byte, i int, buf []byte) []byte {
	buf = buf[:0]
	a := len(alpha)
	// find length
	L, p := 0, 1
	for i >= p {
		i -= p
		p *= a
		L++
	}
	for k := 0; k < L; k++ {
		buf = append(buf, 0)
	}
	for k := L - 1; k >= 0; k-- {
		buf[k] = alpha[i%a]
		i /= a
	}
	return buf
}

// EnumCountOver is EnumCount for any alphabet size.
func EnumCountOver(a, L int) int {
	n, p := 0, 1
	for k := 0; k <= L; k++ {
		n += p
		p *= a
	}
	return n
}

// NewRand returns a PCG generator for (seed, stream).
func NewRand(seed uint64, stream uint64) *rand.Rand {
	return rand.New(rand.NewPCG(seed*0x9E3779B97F4A7C15+1, stream*0xD1B54A32D192ED03+7))
}

var hostileChunks = []string{
	"'", "\"", "`", "'''", "\"\"\"", "\\", "\\x", "\\u", "\\U", "\\0", "\\1", "\\n", "/*", "*/", "--", "#", "//", "\n", "\r\n", " ", "\t",
	"r'", "b\"", "rb'", "Br\"", "0x", "1e", ".5", "1.", "..", ";", ",", "(", ")", "[", "]", "{", "}", "<", ">", ">>", "<>", "@", "@@", "@{", "$",
	"?", "!", "|>", "||", "->", "=>", "\x00", "\x7f", "\x80", "\xff", "\xc3\xa9", "\xe3\x80\x80", "\xc2\xa0", "\xf0\x9f\x98\x80", "\xed\xa0\x80",
	"SELECT", "select", "FROM", "a", "b", "x1", "_", "1", "0", "NULL", "CAST", "AS", "STRUCT", "ARRAY", "CASE", "WHEN", "END", "IN", "NOT", "AND",
	"CREATE", "TABLE", "INSERT", "UPDATE", "DELETE", "WHERE", "JOIN", "ON", "UNNEST", "WITH", "INTERVAL", "NEW", "IF", "EXISTS",
}

// RandBytes returns a hostile byte string: mixture of raw random bytes and lexically meaningful chunks.
func RandBytes(r *rand.Rand, maxLen int) string {
	n := 1 + r.IntN(maxLen)
	var sb strings.Builder
	mode := r.IntN(4)
	for sb.Len() < n {
		switch {
		case mode == 0 || (mode == 2 && r.IntN(3) == 0):
			sb.WriteByte(byte(r.IntN(256)))
		case mode == 1:
			sb.WriteByte(Alphabet[r.IntN(len(Alphabet))])
		default:
			sb.WriteString(hostileChunks[r.IntN(len(hostileChunks))])
			if r.IntN(3) == 0 {
				sb.WriteByte(' ')
			}
		}
	}
	return sb.String()
}

var litPrefixes = []string{"", "r", "R", "b", "B", "rb", "bR", "Br", "RB", "br"}
var litQuotes = []string{"'", "\"", "'''", "\"\"\""}
var litEscapes = []string{
	`\a`, `\b`, `\f`, `\n`, `\r`, `\t`, `\v`, `\\`, `\?`, `\"`, `\'`, "\\`", `\000`, `\377`, `\101`, `\400`, `\08`, `\1`, `\12`,
	`\x41`, `\X4a`, `\xff`, `\x4`, `\xg1`, `\x`, `\u00e9`, `\u00E9`, `\ud800`, `\udfff`, `\ud7ff`, `\ue000`, `\u12`, `\u`, `\U0001F600`, `\U00110000`, `\U0010FFFF`,
	`\U0000d800`, `\U1234`, `\U`, `\c`, `\z`, `\ `, "\\\n", "\\\r", `\8`, `\9`, `\4`, `\e`, `\N`, `\A`,
	"\n", "\r", "\r\n", "'", "\"", "`", "''", "\"\"", "\u00e9", "\xff", "\x00", "a", "",
}

// LiteralMatrix enumerates literal-shaped strings: prefix × quote × escape × position × truncation.
// The callback receives each string; returns the count.
func LiteralMatrix(f func(s string)) int {
	n := 0
	emit := func(s string) { n++; f(s) }
	for _, p := range litPrefixes {
		for _, q := range litQuotes {
			for _, e := range litEscapes {
				for pos := 0; pos < 3; pos++ {
					var body string
					switch pos {
					case 0:
						body = e
					case 1:
						body = "a" + e
					case 2:
						body = e + "b"
					}
					full := p + q + body + q
					emit(full)
					// EOF truncations: every proper prefix that cuts into body or closing quote
					for cut := len(p) + len(q); cut < len(full); cut++ {
						emit(full[:cut])
					}
					// followed by another token / glued identifier
					emit(full + "x")
					emit(full + " x")
					emit("x." + full)
				}
			}
		}
	}
	// runs of backslashes followed by runs of the delimiter's quote character: where a literal ends depends on the
	// parity of the run, in raw literals as well, and in triple-quoted ones on how many quotes follow
	for _, p := range litPrefixes {
		for _, q := range litQuotes {
			qc := q[:1]
			for k := 0; k <= 5; k++ {
				for m := 0; m <= 4; m++ {
					for _, pre := range []string{"", "a"} {
						for _, tail := range []string{"", "a"} {
							full := p + q + pre + strings.Repeat("\\", k) + strings.Repeat(qc, m) + tail + q
							emit(full)
							emit(full + qc)
							emit(full + "; " + p + q + "x" + q)
						}
					}
				}
			}
		}
	}
	// quoted identifiers
	for _, e := range litEscapes {
		for pos := 0; pos < 3; pos++ {
			body := e
			if pos == 1 {
				body = "a" + e
			} else if pos == 2 {
				body = e + "b"
			}
			full := "`" + body + "`"
			emit(full)
			for cut := 1; cut < len(full); cut++ {
				emit(full[:cut])
			}
			emit("a." + full)
			emit(full + ".b")
		}
	}
	return n
}

// NumberForms returns numeric-literal-shaped strings and their neighbours.
func NumberForms() []string {
	atoms := []string{"0", "1", "9", "00", "01", "123", "0x", "0X", "0x1", "0XaF", "0xg", "0x1g", "0x1.5", "0x1e5", "0x1e+5",
		".5", "5.", "1.5", "1.e3", "1.5e3", "1e3", "1E3", "1e+3", "1e-3", "1e", "1e+", "1e-", "1ee", "1e3e4", "1.e", ".e3", ".5e3", ".5e", "1..2", "1.2.3", "1...",
		"1a", "1_", "1_000", "1.a", "1.5a", ".5a", "1e3a", "a1", "a.1", "a.1e3", "a.1.5", "a.0x1", "a .5", "a. 5", "a.5.b", ").5", "].5", "@p.5", "1 .5", "1. 5", "(.5)", "-.5", "-1", "+1.", "1-1", "1--1", "1/*c*/2", "1e3.5", "1.5.e3",
		"0b1", "0o7", "1l", "1L", "1u", "1f", "١", "1 2", "1,2", "12345678901234567890123", "0x123456789abcdefABCDEF0", "0e0", "0.0", "00.00", ".0", "0.", "0.e0"}
	return atoms
}

// KeywordCasings yields every reserved word in lower, upper and mixed case, plain, after '.', and back-quoted.
func KeywordCasings(words []string, f func(s string)) int {
	n := 0
	for _, w := range words {
		lo := strings.ToLower(w)
		mixed := []byte(lo)
		for i := range mixed {
			if i%2 == 0 && mixed[i] >= 'a' && mixed[i] <= 'z' {
				mixed[i] -= 32
			}
		}
		for _, v := range []string{w, lo, string(mixed)} {
			for _, s := range []string{v, "a." + v, "a ." + v, "a. " + v, "`" + v + "`", v + "1", v + "_", "_" + v, v + " " + v, "@" + v, v + ".x", "1." + v, ")." + v, "]." + v, "(" + v + ")", v + "." + v + "." + v, "a." + v + " " + v, "a." + v + " x " + v, v + " a." + v, "f()." + v + " " + v} {
				n++
				f(s)
			}
		}
	}
	return n
}
