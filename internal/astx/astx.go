// Package astx holds the reflective model of a memefish AST used by all monitors:
// enumeration of nodes (independent of ast.Walk), equality modulo positions, deep
// hashing and address collection. Nothing here calls generated memefish code
// (Pos/End/Walk); it only uses reflection over the exported struct fields.
package astx

import (
	"bytes"
	"fmt"
	"hash/fnv"
	"reflect"
	"sort"

	"github.com/cloudspannerecosystem/memefish/ast"
	"github.com/cloudspannerecosystem/memefish/token"
)

var (
	nodeIface = reflect.TypeOf((*ast.Node)(nil)).Elem()
	posType   = reflect.TypeOf(token.Pos(0))
)

// Slot describes where a node sits in its parent.
type Slot struct {
	Parent string       // parent struct type name ("" for root)
	Field  string       // field name
	Index  int          // index in slice, -1 if not a slice element
	Static reflect.Type // static element type of the field (interface or pointer type)
}

func (s Slot) String() string {
	if s.Parent == "" {
		return "<root>"
	}
	if s.Index >= 0 {
		return fmt.Sprintf("%s.%s[%d]", s.Parent, s.Field, s.Index)
	}
	return s.Parent + "." + s.Field
}

// StaticName returns the name of the static slot type (e.g. "Expr", "Ident").
func (s Slot) StaticName() string {
	if s.Static == nil {
		return ""
	}
	t := s.Static
	if t.Kind() == reflect.Ptr {
		t = t.Elem()
	}
	return t.Name()
}

// Info is one node of the reflective pre-order enumeration.
type Info struct {
	Node     ast.Node
	Slot     Slot
	Parent   int // index of parent in the list, -1 for root
	Depth    int
	TypedNil bool // the slot held a non-nil interface wrapping a nil pointer
	// Path is the list of Field / Index steps from the root (Index steps as "#i").
	Path []string
}

// TypeName returns the struct type name of a node ("Select", "BadExpr", ...).
func TypeName(n ast.Node) string {
	if n == nil {
		return "<nil>"
	}
	t := reflect.TypeOf(n)
	if t.Kind() == reflect.Ptr {
		t = t.Elem()
	}
	return t.Name()
}

// IsNilNode reports whether n is nil or a typed nil pointer.
func IsNilNode(n ast.Node) bool {
	if n == nil {
		return true
	}
	v := reflect.ValueOf(n)
	return v.Kind() == reflect.Ptr && v.IsNil()
}

func isNodeType(t reflect.Type) bool {
	switch t.Kind() {
	case reflect.Interface:
		return t.Implements(nodeIface)
	case reflect.Ptr:
		return t.Elem().Kind() == reflect.Struct && t.Implements(nodeIface)
	}
	return false
}

// Nodes enumerates the tree reflectively in pre-order: exported struct fields in
// declaration order whose static type is a node pointer, a node interface, or a
// slice of either; nil values are skipped.
func Nodes(root ast.Node) []Info {
	var out []Info
	if IsNilNode(root) {
		return out
	}
	var rec func(n ast.Node, slot Slot, parent, depth int, path []string)
	rec = func(n ast.Node, slot Slot, parent, depth int, path []string) {
		idx := len(out)
		out = append(out, Info{Node: n, Slot: slot, Parent: parent, Depth: depth, Path: path})
		v := reflect.ValueOf(n)
		if v.Kind() != reflect.Ptr || v.IsNil() {
			out[idx].TypedNil = true
			return
		}
		sv := v.Elem()
		if sv.Kind() != reflect.Struct {
			return
		}
		st := sv.Type()
		for i := 0; i < st.NumField(); i++ {
			f := st.Field(i)
			if !f.IsExported() {
				continue
			}
			fv := sv.Field(i)
			ft := f.Type
			switch {
			case isNodeType(ft):
				if fv.IsNil() {
					continue
				}
				child, ok := fv.Interface().(ast.Node)
				if !ok {
					continue
				}
				np := append(append([]string(nil), path...), f.Name)
				if ft.Kind() == reflect.Interface && IsNilNode(child) {
					// typed nil inside interface: record, do not descend
					out = append(out, Info{Node: child, Slot: Slot{st.Name(), f.Name, -1, ft}, Parent: idx, Depth: depth + 1, TypedNil: true, Path: np})
					continue
				}
				rec(child, Slot{st.Name(), f.Name, -1, ft}, idx, depth+1, np)
			case ft.Kind() == reflect.Slice && isNodeType(ft.Elem()):
				for j := 0; j < fv.Len(); j++ {
					ev := fv.Index(j)
					np := append(append([]string(nil), path...), f.Name, fmt.Sprintf("#%d", j))
					if ev.IsNil() {
						// nil element in a slice: record as typed nil (Walk would visit it)
						continue
					}
					child, ok := ev.Interface().(ast.Node)
					if !ok {
						continue
					}
					if IsNilNode(child) {
						out = append(out, Info{Node: child, Slot: Slot{st.Name(), f.Name, j, ft.Elem()}, Parent: idx, Depth: depth + 1, TypedNil: true, Path: np})
						continue
					}
					rec(child, Slot{st.Name(), f.Name, j, ft.Elem()}, idx, depth+1, np)
				}
			}
		}
	}
	rec(root, Slot{Index: -1}, -1, 0, nil)
	return out
}

// NodeFieldNames returns, for a node struct type, the names of node-typed exported
// fields in declaration order (pointer, interface or slices of them).
func NodeFieldNames(t reflect.Type) []string {
	if t.Kind() == reflect.Ptr {
		t = t.Elem()
	}
	var names []string
	for i := 0; i < t.NumField(); i++ {
		f := t.Field(i)
		if !f.IsExported() {
			continue
		}
		if isNodeType(f.Type) || (f.Type.Kind() == reflect.Slice && isNodeType(f.Type.Elem())) {
			names = append(names, f.Name)
		}
	}
	return names
}

// Diff is one difference found by Equiv.
type Diff struct {
	Where string // StructType.Field
	Kind  string // value | nil | type | len | posvalid
	A, B  string
}

func (d Diff) String() string { return fmt.Sprintf("%s:%s (%s vs %s)", d.Where, d.Kind, d.A, d.B) }

// Sig is the context-free signature of a difference.
func (d Diff) Sig() string { return d.Where + ":" + d.Kind }

// Equiv compares two trees in lock step modulo positions: a token.Pos compares by
// validity only, everything else by value. strictPos makes positions compare by value.
// All differences are reported (bounded to 32).
func Equiv(a, b any, strictPos bool) []Diff {
	var diffs []Diff
	eq(reflect.ValueOf(a), reflect.ValueOf(b), "<root>", strictPos, &diffs, 0)
	return diffs
}

func short(v reflect.Value) string {
	if !v.IsValid() {
		return "<invalid>"
	}
	s := fmt.Sprintf("%v", v)
	if v.Kind() == reflect.Ptr || v.Kind() == reflect.Interface {
		if v.IsNil() {
			return "nil"
		}
		e := v
		for e.Kind() == reflect.Ptr || e.Kind() == reflect.Interface {
			if e.IsNil() {
				break
			}
			e = e.Elem()
		}
		s = e.Type().Name()
	}
	if len(s) > 60 {
		s = s[:60] + "…"
	}
	return s
}

func eq(a, b reflect.Value, where string, strict bool, out *[]Diff, depth int) {
	if len(*out) >= 32 {
		return
	}
	if !a.IsValid() || !b.IsValid() {
		if a.IsValid() != b.IsValid() {
			*out = append(*out, Diff{where, "nil", short(a), short(b)})
		}
		return
	}
	if a.Type() != b.Type() {
		*out = append(*out, Diff{where, "type", a.Type().String(), b.Type().String()})
		return
	}
	t := a.Type()
	if t == posType {
		pa, pb := token.Pos(a.Int()), token.Pos(b.Int())
		if strict {
			if pa != pb {
				*out = append(*out, Diff{where, "posvalue", fmt.Sprint(pa), fmt.Sprint(pb)})
			}
		} else if pa.Invalid() != pb.Invalid() {
			*out = append(*out, Diff{where, "posvalid", fmt.Sprint(pa), fmt.Sprint(pb)})
		}
		return
	}
	switch t.Kind() {
	case reflect.Ptr:
		if a.IsNil() || b.IsNil() {
			if a.IsNil() != b.IsNil() {
				*out = append(*out, Diff{where, "nil", short(a), short(b)})
			}
			return
		}
		eq(a.Elem(), b.Elem(), where, strict, out, depth+1)
	case reflect.Interface:
		if a.IsNil() || b.IsNil() {
			if a.IsNil() != b.IsNil() {
				*out = append(*out, Diff{where, "nil", short(a), short(b)})
			}
			return
		}
		ae, be := a.Elem(), b.Elem()
		if ae.Type() != be.Type() {
			*out = append(*out, Diff{where, "type", short(a), short(b)})
			return
		}
		eq(ae, be, where, strict, out, depth+1)
	case reflect.Struct:
		for i := 0; i < t.NumField(); i++ {
			f := t.Field(i)
			if !f.IsExported() {
				continue
			}
			eq(a.Field(i), b.Field(i), t.Name()+"."+f.Name, strict, out, depth+1)
		}
	case reflect.Slice:
		if t.Elem().Kind() == reflect.Uint8 {
			if !bytes.Equal(a.Bytes(), b.Bytes()) {
				*out = append(*out, Diff{where, "value", fmt.Sprintf("%q", a.Bytes()), fmt.Sprintf("%q", b.Bytes())})
			}
			return
		}
		if a.Len() != b.Len() {
			*out = append(*out, Diff{where, "len", fmt.Sprint(a.Len()), fmt.Sprint(b.Len())})
			return
		}
		for i := 0; i < a.Len(); i++ {
			eq(a.Index(i), b.Index(i), where, strict, out, depth+1)
		}
	case reflect.String:
		if a.String() != b.String() {
			*out = append(*out, Diff{where, "value", fmt.Sprintf("%q", a.String()), fmt.Sprintf("%q", b.String())})
		}
	case reflect.Bool:
		if a.Bool() != b.Bool() {
			*out = append(*out, Diff{where, "value", fmt.Sprint(a.Bool()), fmt.Sprint(b.Bool())})
		}
	case reflect.Int, reflect.Int8, reflect.Int16, reflect.Int32, reflect.Int64:
		if a.Int() != b.Int() {
			*out = append(*out, Diff{where, "value", fmt.Sprint(a.Int()), fmt.Sprint(b.Int())})
		}
	case reflect.Uint, reflect.Uint8, reflect.Uint16, reflect.Uint32, reflect.Uint64:
		if a.Uint() != b.Uint() {
			*out = append(*out, Diff{where, "value", fmt.Sprint(a.Uint()), fmt.Sprint(b.Uint())})
		}
	case reflect.Map:
		if a.Len() != b.Len() {
			*out = append(*out, Diff{where, "len", fmt.Sprint(a.Len()), fmt.Sprint(b.Len())})
		}
	default:
		// funcs, chans: not present in the AST
	}
}

// Hash returns a deep digest of any value including position values, string
// contents and slice lengths; unexported fields are skipped (token.File.lines is a cache).
func Hash(v any) uint64 {
	h := fnv.New64a()
	hashVal(reflect.ValueOf(v), h)
	return h.Sum64()
}

type hasher interface{ Write([]byte) (int, error) }

func hashVal(v reflect.Value, h hasher) {
	if !v.IsValid() {
		h.Write([]byte{0xff})
		return
	}
	switch v.Kind() {
	case reflect.Ptr, reflect.Interface:
		if v.IsNil() {
			h.Write([]byte{0})
			return
		}
		h.Write([]byte{1})
		if v.Kind() == reflect.Interface {
			h.Write([]byte(v.Elem().Type().String()))
		}
		hashVal(v.Elem(), h)
	case reflect.Struct:
		t := v.Type()
		h.Write([]byte(t.Name()))
		for i := 0; i < t.NumField(); i++ {
			if !t.Field(i).IsExported() {
				continue
			}
			hashVal(v.Field(i), h)
		}
	case reflect.Slice:
		fmt.Fprintf(h, "[%d]", v.Len())
		if v.Type().Elem().Kind() == reflect.Uint8 {
			h.Write(v.Bytes())
			return
		}
		for i := 0; i < v.Len(); i++ {
			hashVal(v.Index(i), h)
		}
	case reflect.String:
		fmt.Fprintf(h, "s%d:", v.Len())
		h.Write([]byte(v.String()))
	case reflect.Bool:
		if v.Bool() {
			h.Write([]byte{2})
		} else {
			h.Write([]byte{3})
		}
	case reflect.Int, reflect.Int8, reflect.Int16, reflect.Int32, reflect.Int64:
		fmt.Fprintf(h, "i%d;", v.Int())
	case reflect.Uint, reflect.Uint8, reflect.Uint16, reflect.Uint32, reflect.Uint64:
		fmt.Fprintf(h, "u%d;", v.Uint())
	case reflect.Map:
		keys := v.MapKeys()
		ks := make([]string, len(keys))
		for i, k := range keys {
			ks[i] = fmt.Sprint(k)
		}
		sort.Strings(ks)
		for _, k := range ks {
			h.Write([]byte(k))
		}
	}
}

// Addrs collects the heap addresses (pointer targets and non-empty slice bases)
// reachable from v through exported fields.
func Addrs(v any, into map[uintptr]string) {
	addrs(reflect.ValueOf(v), into, "<root>")
}

func addrs(v reflect.Value, into map[uintptr]string, where string) {
	if !v.IsValid() {
		return
	}
	switch v.Kind() {
	case reflect.Ptr:
		if v.IsNil() {
			return
		}
		p := v.Pointer()
		if _, ok := into[p]; ok {
			return
		}
		into[p] = where + ":" + v.Type().String()
		addrs(v.Elem(), into, where)
	case reflect.Interface:
		if v.IsNil() {
			return
		}
		addrs(v.Elem(), into, where)
	case reflect.Struct:
		t := v.Type()
		for i := 0; i < t.NumField(); i++ {
			if !t.Field(i).IsExported() {
				continue
			}
			addrs(v.Field(i), into, t.Name()+"."+t.Field(i).Name)
		}
	case reflect.Slice:
		if v.Len() == 0 && v.Cap() == 0 {
			return
		}
		if v.Cap() > 0 {
			into[v.Pointer()] = where + ":" + v.Type().String()
		}
		if v.Type().Elem().Kind() == reflect.Uint8 {
			return
		}
		for i := 0; i < v.Len(); i++ {
			addrs(v.Index(i), into, where)
		}
	}
}

// HasBad reports whether the enumeration contains a Bad* node; it also counts *BadNode placeholders.
func HasBad(infos []Info) (any bool, badNodes int) {
	for _, in := range infos {
		switch in.Node.(type) {
		case *ast.BadNode:
			badNodes++
			any = true
		case *ast.BadStatement, *ast.BadQueryExpr, *ast.BadExpr, *ast.BadType, *ast.BadDDL, *ast.BadDML:
			any = true
		}
	}
	return
}

// ShareSiblings rewrites the tree so that, inside every node, a later node-typed slot (field or slice element) holds
// the very same instance as an earlier slot of the same dynamic type: a hand-built tree with shared subtrees (a DAG,
// never a cycle). Returns the number of slots rewritten. Traversal is defined over fields, so it still has to
// enumerate every slot.
func ShareSiblings(root ast.Node) int {
	shared := 0
	seen := map[uintptr]bool{}
	var rec func(n ast.Node)
	rec = func(n ast.Node) {
		v := reflect.ValueOf(n)
		if v.Kind() != reflect.Ptr || v.IsNil() || v.Elem().Kind() != reflect.Struct {
			return
		}
		if seen[v.Pointer()] {
			return
		}
		seen[v.Pointer()] = true
		sv := v.Elem()
		st := sv.Type()
		first := map[reflect.Type]reflect.Value{} // dynamic type -> first instance inside this node
		visit := func(slot reflect.Value) {
			if slot.IsNil() {
				return
			}
			child, ok := slot.Interface().(ast.Node)
			if !ok || IsNilNode(child) {
				return
			}
			dt := reflect.TypeOf(child)
			if prev, ok := first[dt]; ok && slot.CanSet() && prev.Type().AssignableTo(slot.Type()) {
				if pn, ok := prev.Interface().(ast.Node); ok && smallerThan(pn, 40) {
					slot.Set(prev)
					shared++
				}
				return
			}
			if slot.Kind() == reflect.Interface {
				first[dt] = slot.Elem()
			} else {
				first[dt] = slot
			}
		}
		for i := 0; i < st.NumField(); i++ {
			f := st.Field(i)
			if !f.IsExported() {
				continue
			}
			fv := sv.Field(i)
			switch {
			case isNodeType(f.Type):
				visit(fv)
			case f.Type.Kind() == reflect.Slice && isNodeType(f.Type.Elem()):
				for j := 0; j < fv.Len(); j++ {
					visit(fv.Index(j))
				}
			}
		}
		// descend (after rewriting) into the distinct children
		for i := 0; i < st.NumField(); i++ {
			f := st.Field(i)
			if !f.IsExported() {
				continue
			}
			fv := sv.Field(i)
			switch {
			case isNodeType(f.Type):
				if !fv.IsNil() {
					if c, ok := fv.Interface().(ast.Node); ok && !IsNilNode(c) {
						rec(c)
					}
				}
			case f.Type.Kind() == reflect.Slice && isNodeType(f.Type.Elem()):
				for j := 0; j < fv.Len(); j++ {
					if ev := fv.Index(j); !ev.IsNil() {
						if c, ok := ev.Interface().(ast.Node); ok && !IsNilNode(c) {
							rec(c)
						}
					}
				}
			}
		}
	}
	rec(root)
	return shared
}

// smallerThan reports whether the subtree of n has fewer than limit nodes (counting stops at the limit).
func smallerThan(n ast.Node, limit int) bool {
	cnt := 0
	var rec func(n ast.Node) bool
	rec = func(n ast.Node) bool {
		cnt++
		if cnt >= limit {
			return false
		}
		v := reflect.ValueOf(n)
		if v.Kind() != reflect.Ptr || v.IsNil() || v.Elem().Kind() != reflect.Struct {
			return true
		}
		sv := v.Elem()
		st := sv.Type()
		for i := 0; i < st.NumField(); i++ {
			f := st.Field(i)
			if !f.IsExported() {
				continue
			}
			fv := sv.Field(i)
			switch {
			case isNodeType(f.Type):
				if !fv.IsNil() {
					if c, ok := fv.Interface().(ast.Node); ok && !IsNilNode(c) && !rec(c) {
						return false
					}
				}
			case f.Type.Kind() == reflect.Slice && isNodeType(f.Type.Elem()):
				for j := 0; j < fv.Len(); j++ {
					if ev := fv.Index(j); !ev.IsNil() {
						if c, ok := ev.Interface().(ast.Node); ok && !IsNilNode(c) && !rec(c) {
							return false
						}
					}
				}
			}
		}
		return true
	}
	return rec(n)
}
