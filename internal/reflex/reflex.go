// Package reflex is an independently written reference lexer for the Spanner
// GoogleSQL lexical structure (see DESIGN.md Appendix A). It does not import
// memefish. Its answer is three-valued: Tokens, Reject or Unspecified.
package reflex

import (
	"strings"
	"unicode/utf8"
)

type Status int

const (
	Accept Status = iota
	Reject
	Unspecified
)

func (s Status) String() string {
	switch s {
	case Accept:
		return "accept"
	case Reject:
		return "reject"
	}
	return "unspecified"
}

// Kinds (spelled like memefish token kinds so that streams can be compared directly).
const (
	KIdent  = "<ident>"
	KParam  = "<param>"
	KInt    = "<int>"
	KFloat  = "<float>"
	KString = "<string>"
	KBytes  = "<bytes>"
)

type Tok struct {
	Kind     string
	Pos, End int
	Value    string // decoded value for ident/param/string/bytes
	Base     int    // 10 or 16 for ints
	Quoted   bool   // back-quoted identifier
	// HadTrivia reports whether whitespace or comments precede the token.
	HadTrivia bool
}

type Comment struct{ Pos, End int }

type Out struct {
	Status   Status
	Toks     []Tok
	Comments []Comment
	ErrPos   int    // where Reject / Unspecified was decided
	Why      string // reason
}

var reserved = map[string]bool{}

// ReservedWords is the documented list of reserved keywords.
var ReservedWords = strings.Fields(`
ALL AND ANY ARRAY AS ASC ASSERT_ROWS_MODIFIED AT BETWEEN BY CASE CAST COLLATE CONTAINS CREATE CROSS CUBE CURRENT
DEFAULT DEFINE DESC DISTINCT ELSE END ENUM ESCAPE EXCEPT EXCLUDE EXISTS EXTRACT FALSE FETCH FOLLOWING FOR FROM FULL
GRAPH_TABLE GROUP GROUPING GROUPS HASH HAVING IF IGNORE IN INNER INTERSECT INTERVAL INTO IS JOIN LATERAL LEFT LIKE
LIMIT LOOKUP MERGE NATURAL NEW NO NOT NULL NULLS OF ON OR ORDER OUTER OVER PARTITION PRECEDING PROTO RANGE RECURSIVE
RESPECT RIGHT ROLLUP ROWS SELECT SET SOME STRUCT TABLESAMPLE THEN TO TREAT TRUE UNBOUNDED UNION UNNEST USING WHEN
WHERE WINDOW WITH WITHIN`)

func init() {
	for _, w := range ReservedWords {
		reserved[w] = true
	}
}

// IsReserved reports whether s (any case) is a reserved keyword.
func IsReserved(s string) bool { return reserved[upper(s)] }

func upper(s string) string {
	b := []byte(s)
	for i, c := range b {
		if 'a' <= c && c <= 'z' {
			b[i] = c - 32
		}
	}
	return string(b)
}

func isWS(c byte) bool { return c == ' ' || (c >= 0x09 && c <= 0x0d) }

// UniWS returns the length of the Unicode whitespace character at the start of s, 0 if there is none. The set is the
// one GoogleSQL's tokenizer lists (U+00A0, U+1680, U+2000..U+200A, U+2028, U+2029, U+202F, U+205F, U+3000); other
// non-ASCII characters outside literals and comments stay Unspecified.
func UniWS(s string) int {
	if len(s) >= 2 && s[0] == 0xC2 && s[1] == 0xA0 {
		return 2
	}
	if len(s) < 3 {
		return 0
	}
	switch {
	case s[0] == 0xE1 && s[1] == 0x9A && s[2] == 0x80,
		s[0] == 0xE2 && s[1] == 0x80 && (s[2] >= 0x80 && s[2] <= 0x8A || s[2] == 0xA8 || s[2] == 0xA9 || s[2] == 0xAF),
		s[0] == 0xE2 && s[1] == 0x81 && s[2] == 0x9F,
		s[0] == 0xE3 && s[1] == 0x80 && s[2] == 0x80:
		return 3
	}
	return 0
}

func isDigit(c byte) bool       { return c >= '0' && c <= '9' }
func isHex(c byte) bool         { return isDigit(c) || (c >= 'a' && c <= 'f') || (c >= 'A' && c <= 'F') }
func isOct(c byte) bool         { return c >= '0' && c <= '7' }
func isIdStart(c byte) bool     { return c == '_' || (c >= 'a' && c <= 'z') || (c >= 'A' && c <= 'Z') }
func isIdPart(c byte) bool      { return isIdStart(c) || isDigit(c) }
func dotEligible(k string) bool { return k == KIdent || k == KParam || k == ")" || k == "]" }

var puncts = []string{
	// longest first within each leading byte
	"<<", "<=", "<>", "<", ">>", ">=", ">", "+=", "+", "-=", "->", "-", "=>", "=", "|>", "||", "|", "!=", "!",
	"(", ")", "{", "}", "[", "]", ";", ",", ".", "~", "*", "/", "&", "^", "%", ":", "?", "\\", "$",
}

// Lex lexes the whole input.
func Lex(in string) Out {
	var out Out
	pos := 0
	n := len(in)
	prevKind, prevPrevKind := "", ""
	for {
		// trivia
		triviaStart := pos
		for pos < n {
			c := in[pos]
			switch {
			case isWS(c):
				pos++
				continue
			case c >= 0x80 && UniWS(in[pos:]) > 0:
				pos += UniWS(in[pos:])
				continue
			case c == '#' || (c == '-' && pos+1 < n && in[pos+1] == '-') || (c == '/' && pos+1 < n && in[pos+1] == '/'):
				s := pos
				for pos < n && in[pos] != '\n' {
					pos++
				}
				if pos < n {
					pos++ // the newline belongs to the comment
				}
				out.Comments = append(out.Comments, Comment{s, pos})
				continue
			case c == '/' && pos+1 < n && in[pos+1] == '*':
				s := pos
				e := strings.Index(in[pos+2:], "*/")
				if e < 0 {
					out.Status, out.ErrPos, out.Why = Reject, pos, "unterminated /* comment"
					return out
				}
				pos = pos + 2 + e + 2
				out.Comments = append(out.Comments, Comment{s, pos})
				continue
			}
			break
		}
		hadTrivia := pos > triviaStart
		if pos >= n {
			out.Status = Accept
			return out
		}
		c := in[pos]
		if c >= 0x80 {
			out.Status, out.ErrPos, out.Why = Unspecified, pos, "non-ASCII byte outside literal/comment"
			return out
		}
		afterDot := prevKind == "." && dotEligible(prevPrevKind)
		if prevKind == "." && prevPrevKind == "?" {
			out.Status, out.ErrPos, out.Why = Unspecified, pos, "'.' after '?'"
			return out
		}
		start := pos
		var tk Tok
		tk.HadTrivia = hadTrivia
		switch {
		case afterDot && isIdPart(c):
			e := pos
			for e < n && isIdPart(in[e]) {
				e++
			}
			word := in[pos:e]
			if hadTrivia && (isDigit(c) || reserved[upper(word)]) {
				out.Status, out.ErrPos, out.Why = Unspecified, pos, "trivia between '.' and digit/keyword run"
				return out
			}
			tk.Kind, tk.Value = KIdent, word
			pos = e
		default:
			// string / bytes literal with optional prefix
			if pl, raw, bytes, ok := literalPrefix(in, pos); ok {
				v, e, st, why := scanQuoted(in, pos+pl, raw, !bytes, false)
				if st != Accept {
					out.Status, out.ErrPos, out.Why = st, pos, why
					return out
				}
				tk.Value = v
				if bytes {
					tk.Kind = KBytes
				} else {
					tk.Kind = KString
				}
				pos = e
				break
			}
			switch {
			case c == '`':
				v, e, st, why := scanQuoted(in, pos, false, true, true)
				if st != Accept {
					out.Status, out.ErrPos, out.Why = st, pos, why
					return out
				}
				if v == "" {
					out.Status, out.ErrPos, out.Why = Reject, pos, "empty quoted identifier"
					return out
				}
				tk.Kind, tk.Value, tk.Quoted = KIdent, v, true
				pos = e
			case isDigit(c) || (c == '.' && pos+1 < n && isDigit(in[pos+1]) && !dotEligible(prevKind)):
				e, isInt, base := scanNumber(in, pos)
				if e < n && isIdPart(in[e]) {
					out.Status, out.ErrPos, out.Why = Reject, pos, "number glued to identifier"
					return out
				}
				if isInt {
					tk.Kind, tk.Base = KInt, base
				} else {
					tk.Kind = KFloat
				}
				pos = e
			case c == '@':
				if pos+1 < n && in[pos+1] == '@' {
					tk.Kind = "@@"
					pos += 2
				} else if pos+1 < n && isIdStart(in[pos+1]) {
					e := pos + 1
					for e < n && isIdPart(in[e]) {
						e++
					}
					tk.Kind, tk.Value = KParam, in[pos+1:e]
					pos = e
				} else {
					tk.Kind = "@"
					pos++
				}
			case isIdStart(c):
				e := pos
				for e < n && isIdPart(in[e]) {
					e++
				}
				word := in[pos:e]
				if u := upper(word); reserved[u] {
					tk.Kind = u
				} else {
					tk.Kind, tk.Value = KIdent, word
				}
				pos = e
			default:
				matched := false
				for _, p := range puncts {
					if strings.HasPrefix(in[pos:], p) {
						tk.Kind = p
						pos += len(p)
						matched = true
						break
					}
				}
				if !matched {
					out.Status, out.ErrPos, out.Why = Reject, pos, "illegal character"
					return out
				}
			}
		}
		tk.Pos, tk.End = start, pos
		out.Toks = append(out.Toks, tk)
		prevPrevKind, prevKind = prevKind, tk.Kind
	}
}

// literalPrefix recognises [rR|bB|rb|br...] immediately followed by a quote.
func literalPrefix(in string, pos int) (plen int, raw, bytes, ok bool) {
	n := len(in)
	i := pos
	for i < n && i-pos < 2 {
		c := in[i]
		if (c == 'r' || c == 'R') && !raw {
			raw = true
			i++
			continue
		}
		if (c == 'b' || c == 'B') && !bytes {
			bytes = true
			i++
			continue
		}
		break
	}
	if i < n && (in[i] == '"' || in[i] == '\'') {
		return i - pos, raw, bytes, true
	}
	return 0, false, false, false
}

// scanQuoted scans a quoted literal starting at the opening quote in[pos].
func scanQuoted(in string, pos int, raw, unicodeOK, ident bool) (val string, end int, st Status, why string) {
	n := len(in)
	q := in[pos]
	delim := string(q)
	if !ident && pos+2 < n && in[pos+1] == q && in[pos+2] == q {
		delim = in[pos : pos+3]
	}
	triple := len(delim) == 3
	i := pos + len(delim)
	var b []byte
	for {
		if i >= n {
			return "", 0, Reject, "unterminated literal"
		}
		if strings.HasPrefix(in[i:], delim) {
			return string(b), i + len(delim), Accept, ""
		}
		c := in[i]
		if c == '\n' && !triple {
			return "", 0, Reject, "newline in one-line literal"
		}
		if c != '\\' {
			b = append(b, c)
			i++
			continue
		}
		// backslash
		if i+1 >= n {
			return "", 0, Reject, "backslash at end of input"
		}
		e := in[i+1]
		if raw {
			if e == '\n' && !triple {
				return "", 0, Unspecified, "backslash-newline in one-line raw literal"
			}
			b = append(b, '\\', e)
			i += 2
			continue
		}
		i += 2
		switch e {
		case 'a':
			b = append(b, 7)
		case 'b':
			b = append(b, 8)
		case 'f':
			b = append(b, 12)
		case 'n':
			b = append(b, 10)
		case 'r':
			b = append(b, 13)
		case 't':
			b = append(b, 9)
		case 'v':
			b = append(b, 11)
		case '\\', '?', '"', '\'', '`':
			b = append(b, e)
		case '0', '1', '2', '3':
			if i+1 >= n || !isOct(in[i]) || !isOct(in[i+1]) {
				return "", 0, Reject, "bad octal escape"
			}
			v := (int(e-'0') << 6) | (int(in[i]-'0') << 3) | int(in[i+1]-'0')
			b = append(b, byte(v))
			i += 2
		case 'x', 'X':
			if i+1 >= n || !isHex(in[i]) || !isHex(in[i+1]) {
				return "", 0, Reject, "bad hex escape"
			}
			b = append(b, byte(hexv(in[i])<<4|hexv(in[i+1])))
			i += 2
		case 'u', 'U':
			if !unicodeOK {
				return "", 0, Reject, "unicode escape in bytes literal"
			}
			size := 4
			if e == 'U' {
				size = 8
			}
			if i+size > n {
				return "", 0, Reject, "short unicode escape"
			}
			var r uint32
			for k := 0; k < size; k++ {
				if !isHex(in[i+k]) {
					return "", 0, Reject, "bad unicode escape"
				}
				r = r<<4 | uint32(hexv(in[i+k]))
			}
			if r > 0x10FFFF || (r >= 0xD800 && r <= 0xDFFF) {
				return "", 0, Reject, "invalid code point"
			}
			var buf [4]byte
			m := utf8.EncodeRune(buf[:], rune(r))
			b = append(b, buf[:m]...)
			i += size
		default:
			return "", 0, Reject, "invalid escape"
		}
	}
}

func hexv(c byte) int {
	switch {
	case c >= '0' && c <= '9':
		return int(c - '0')
	case c >= 'a' && c <= 'f':
		return int(c-'a') + 10
	}
	return int(c-'A') + 10
}

// scanNumber returns the end of the longest numeric literal at pos.
func scanNumber(in string, pos int) (end int, isInt bool, base int) {
	n := len(in)
	i := pos
	if in[i] == '0' && i+2 < n+0 && (in[i+1] == 'x' || in[i+1] == 'X') && i+2 < n && isHex(in[i+2]) {
		i += 2
		for i < n && isHex(in[i]) {
			i++
		}
		return i, true, 16
	}
	isInt = true
	for i < n && isDigit(in[i]) {
		i++
	}
	if i < n && in[i] == '.' {
		isInt = false
		i++
		for i < n && isDigit(in[i]) {
			i++
		}
	}
	if i < n && (in[i] == 'e' || in[i] == 'E') {
		j := i + 1
		if j < n && (in[j] == '+' || in[j] == '-') {
			j++
		}
		if j < n && isDigit(in[j]) {
			for j < n && isDigit(in[j]) {
				j++
			}
			i = j
			isInt = false
		}
	}
	return i, isInt, 10
}
