// gprobe is a development tool: it generates sentences of grammar G and reports which ones memefish rejects.
package main

import (
	"flag"
	"fmt"
	"sort"

	"verif/internal/gen"
	"verif/internal/mon"
)

func main() {
	n := flag.Int("n", 2000, "sentences per start symbol")
	budget := flag.Int("budget", 6, "depth budget")
	seed := flag.Uint64("seed", 1, "seed")
	show := flag.Int("show", 3, "examples per error class")
	only := flag.String("entry", "", "only this start symbol")
	trivia := flag.Int("trivia", 0, "trivia policy")
	flag.Parse()
	entries := []string{"expr", "type", "query", "dml", "ddl", "statement"}
	if *only != "" {
		entries = []string{*only}
	}
	for _, e := range entries {
		r := gen.NewRand(*seed, 7)
		g := gen.NewG(r)
		rej := map[string][]string{}
		ok, guard := 0, 0
		maxTok := 0
		for i := 0; i < *n; i++ {
			s := g.Generate(e, *budget)
			if len(s.Toks) > maxTok {
				maxTok = len(s.Toks)
			}
			text := gen.Render(r, s, gen.RenderOpts{Trivia: *trivia, Case: 0, Quote: 0})
			if !gen.RelexGuard(text, s) {
				guard++
				if guard <= 3 {
					fmt.Printf("GUARD %s: %q\n", e, text)
				}
				continue
			}
			p := mon.Parse(e, text)
			if p.Panic != nil {
				rej[fmt.Sprintf("PANIC %v", p.Panic)] = append(rej[fmt.Sprintf("PANIC %v", p.Panic)], text)
				continue
			}
			if p.Err != nil {
				k := p.Err.Error()
				if len(k) > 90 {
					k = k[len("syntax error: verif.sql:1:"):]
				}
				// class: message without position
				for j := 0; j < len(k); j++ {
					if k[j] == ' ' {
						k = k[j+1:]
						break
					}
				}
				rej[k] = append(rej[k], text)
				continue
			}
			ok++
		}
		fmt.Printf("== %s: ok=%d guard_rejected=%d rejected=%d maxtoks=%d cov=%d\n", e, ok, guard, *n-ok-guard, maxTok, len(g.Cov))
		var ks []string
		for k := range rej {
			ks = append(ks, k)
		}
		sort.Slice(ks, func(i, j int) bool { return len(rej[ks[i]]) > len(rej[ks[j]]) })
		for _, k := range ks {
			fmt.Printf("  [%d] %s\n", len(rej[k]), k)
			for i, t := range rej[k] {
				if i >= *show {
					break
				}
				if len(t) > 300 {
					t = t[:300] + "…"
				}
				fmt.Printf("      %s\n", t)
			}
		}
	}
}
