package main

import (
	"fmt"
	"os"
	"strings"

	"verif/internal/gen"
	"verif/internal/mon"
)

// qpkwProbe: back-quote every pseudo-keyword token of the systematic set, one at a time, and report what the
// tree under test does (development tool for the K4 family).
func qpkwProbe() {
	set, _, _ := gen.SystematicSet()
	r := gen.NewRand(1, 1)
	total, accepted := 0, 0
	byWord := map[string]int{}
	for _, s := range set {
		for i, t := range s.Toks {
			if t.Role != gen.PKW {
				continue
			}
			s2 := gen.Sentence{Entry: s.Entry, Toks: append([]gen.Tok(nil), s.Toks...)}
			s2.Toks[i] = gen.Tok{Role: gen.ID, Text: t.Text, Quote: true}
			txt := gen.Render(r, s2, gen.RenderOpts{})
			total++
			p := mon.Parse(s.Entry, txt)
			if p.Panic == nil && p.Err == nil {
				accepted++
				byWord[t.Text]++
			}
		}
	}
	fmt.Printf("quoted-PKW near misses: %d, accepted %d\n", total, accepted)
	var ws []string
	for w, n := range byWord {
		ws = append(ws, fmt.Sprintf("%s:%d", w, n))
	}
	fmt.Println(strings.Join(ws, " "))
}

func init() {
	if len(os.Args) > 1 && os.Args[1] == "qpkw" {
		qpkwProbe()
		os.Exit(0)
	}
}
