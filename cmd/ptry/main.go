// ptry is a development tool: parse each line "entry<TAB>sql" (or with -entry) and print result + SQL().
package main

import (
	"bufio"
	"flag"
	"fmt"
	"os"
	"strings"

	"verif/internal/mon"
)

func main() {
	entry := flag.String("entry", "", "entry for all lines")
	flag.Parse()
	sc := bufio.NewScanner(os.Stdin)
	sc.Buffer(make([]byte, 1<<20), 1<<20)
	for sc.Scan() {
		line := sc.Text()
		e, sql := *entry, line
		if e == "" {
			parts := strings.SplitN(line, "\t", 2)
			if len(parts) != 2 {
				continue
			}
			e, sql = parts[0], parts[1]
		}
		sql = strings.ReplaceAll(sql, `\n`, "\n")
		p := mon.Parse(e, sql)
		switch {
		case p.Panic != nil:
			fmt.Printf("PANIC  %-10s %q: %v\n", e, sql, p.Panic)
		case p.Err != nil:
			fmt.Printf("REJECT %-10s %q: %v\n", e, sql, p.Err)
		default:
			s := ""
			for _, r := range p.Roots {
				x, _ := mon.SQLOf(r)
				s += x + "; "
			}
			fmt.Printf("OK     %-10s %q => %q\n", e, sql, s)
		}
	}
}
