// harvest writes errsites.tsv: one short representative input per distinct (entry point, error message shape) that the
// broad error workloads reach on the tree it is built against. Workload data for C18 (and a reach figure for C09).
package main

import (
	"flag"
	"fmt"
	"os"
	"path/filepath"
	"regexp"
	"strconv"
	"strings"

	"verif/internal/mon"
)

func main() {
	verifDir := flag.String("verifdir", "/verif", "")
	repo := flag.String("repo", "/repo", "")
	flag.Parse()
	mon.VerifDir = *verifDir
	c := mon.NewCtx("HARVEST", "quick", 1, 0, 1, *repo)
	sites := mon.HarvestErrorSites(c)
	if err := mon.WriteErrSites(filepath.Join(*verifDir, "errsites.tsv"), sites); err != nil {
		fmt.Fprintln(os.Stderr, err)
		os.Exit(2)
	}
	shapes := map[string]bool{}
	for _, s := range sites {
		shapes[s.Shape] = true
	}
	fmt.Printf("%d sites, %d distinct message shapes\n", len(sites), len(shapes))
	// reach: message templates written in parser.go / lexer.go (string literals passed to the error helpers)
	re := regexp.MustCompile(`(?:errorfAtToken|errorfAtPosition|panicfAtToken|panicfAtPosition|panicf|errorf|Errorf)\([^"\n]*"((?:[^"\\]|\\.)*)"`)
	for _, f := range []string{"parser.go", "lexer.go", "split.go"} {
		b, err := os.ReadFile(filepath.Join(*repo, f))
		if err != nil {
			continue
		}
		total, reached := 0, 0
		for _, m := range re.FindAllStringSubmatch(string(b), -1) {
			tmpl := m[1]
			if u, err := strconv.Unquote("\"" + tmpl + "\""); err == nil {
				tmpl = u
			}
			// the fixed words of the template (before the first verb)
			fixed := tmpl
			if i := strings.IndexByte(fixed, '%'); i >= 0 {
				fixed = fixed[:i]
			}
			fixed = mon.MsgShape(fixed + " ")
			fixed = strings.TrimSpace(fixed)
			if len(fixed) < 6 {
				continue
			}
			total++
			hit := false
			for sh := range shapes {
				if strings.Contains(sh, fixed) {
					hit = true
					break
				}
			}
			if hit {
				reached++
			} else {
				fmt.Printf("  not reached (%s): %q\n", f, tmpl)
			}
		}
		fmt.Printf("%s: %d of %d message templates reached\n", f, reached, total)
	}
}
