// vworker is both the driver and the worker of the runtime-monitoring checks.
//
//	vworker -mode driver -prop C01 -tier quick       orchestrates shards (child processes of itself)
//	vworker -mode worker -prop C01 -shard i ...      runs one shard of the workload
//	vworker -mode case   -prop C01 -entry e -inputfile f   runs the monitor on a single case
package main

import (
	"crypto/sha1"
	"encoding/base64"
	"encoding/binary"
	"encoding/json"
	"flag"
	"fmt"
	"os"
	"os/exec"
	"path/filepath"
	"runtime"
	"runtime/debug"
	"runtime/metrics"
	"sort"
	"strconv"
	"strings"
	"sync"
	"sync/atomic"
	"syscall"
	"time"

	"verif/internal/known"
	"verif/internal/mon"
)

var (
	mode      = flag.String("mode", "driver", "driver | worker | case")
	propID    = flag.String("prop", "", "property id")
	tier      = flag.String("tier", "quick", "quick | thorough")
	seedFlag  = flag.Uint64("seed", 0, "seed (default: $VERIF_SEED or 1)")
	shard     = flag.Int("shard", 0, "shard index")
	nshards   = flag.Int("nshards", 0, "number of shards (default: min(16, NumCPU))")
	outPath   = flag.String("out", "", "worker result file")
	journal   = flag.String("journal", "", "worker journal file")
	entryFlag = flag.String("entry", "", "entry for -mode case")
	inputFile = flag.String("inputfile", "", "file holding the input bytes for -mode case")
	replayF   = flag.String("replay", "", "replay file (driver mode)")
	verifDir  = flag.String("verifdir", "", "root of /verif (default: cwd)")
	repoDir   = flag.String("repo", "/repo", "repository under test")
	hooksNote = flag.String("hooksnote", "", "set by ./check: on | unavailable")
	workerBin = flag.String("workerbin", "", "binary used for worker / case / canary children (default: this binary)")
)

func main() {
	flag.Parse()
	if *verifDir == "" {
		wd, _ := os.Getwd()
		*verifDir = wd
	}
	mon.VerifDir = *verifDir
	seed := *seedFlag
	if seed == 0 {
		if s := os.Getenv("VERIF_SEED"); s != "" {
			if v, err := strconv.ParseUint(s, 10, 64); err == nil {
				seed = v
			}
		}
	}
	if seed == 0 {
		seed = 1
	}
	if t := os.Getenv("VERIF_TIER"); t != "" && *mode == "driver" && !flagSet("tier") {
		*tier = t
	}
	if *nshards == 0 {
		*nshards = runtime.NumCPU()
		if *nshards > 16 {
			*nshards = 16
		}
	}
	switch *mode {
	case "worker":
		os.Exit(runWorker(seed))
	case "case":
		os.Exit(runCase(seed))
	case "canary":
		runCanary()
		os.Exit(0)
	default:
		os.Exit(runDriver(seed))
	}
}

func flagSet(name string) bool {
	set := false
	flag.Visit(func(f *flag.Flag) {
		if f.Name == name {
			set = true
		}
	})
	return set
}

// ---------------------------------------------------------------------------
// worker

func memGuard() {
	// exits with 97 if the Go heap exceeds 6 GiB (an allocation runaway); the driver
	// recovers the culprit from the journal.
	go func() {
		s := []metrics.Sample{{Name: "/memory/classes/heap/objects:bytes"}}
		for {
			time.Sleep(100 * time.Millisecond)
			metrics.Read(s)
			if s[0].Value.Kind() == metrics.KindUint64 && s[0].Value.Uint64() > 6<<30 {
				fmt.Fprintln(os.Stderr, "VERIF-MEMGUARD: heap above 6 GiB")
				os.Exit(97)
			}
		}
	}()
}

func runWorker(seed uint64) int {
	p := mon.Registry[*propID]
	if p == nil {
		fmt.Fprintln(os.Stderr, "unknown property", *propID)
		return 2
	}
	debug.SetMaxStack(512 << 20)
	memGuard()
	c := mon.NewCtx(*propID, *tier, seed, *shard, *nshards, *repoDir)
	if *journal != "" {
		if err := c.OpenJournal(*journal); err != nil {
			fmt.Fprintln(os.Stderr, "journal:", err)
			return 2
		}
	}
	p.Run(c)
	if err := c.Finish(*outPath); err != nil {
		fmt.Fprintln(os.Stderr, "finish:", err)
		return 2
	}
	return 0
}

func runCase(seed uint64) int {
	p := mon.Registry[*propID]
	if p == nil {
		fmt.Fprintln(os.Stderr, "unknown property", *propID)
		return 2
	}
	debug.SetMaxStack(512 << 20)
	memGuard()
	b, err := os.ReadFile(*inputFile)
	if err != nil {
		fmt.Fprintln(os.Stderr, err)
		return 2
	}
	c := mon.NewCtx(*propID, *tier, seed, 0, 1, *repoDir)
	c.Single = true
	p.Replay(c, *entryFlag, string(b))
	if err := c.Finish(*outPath); err != nil {
		fmt.Fprintln(os.Stderr, "finish:", err)
		return 2
	}
	return 0
}

// runCanary contains a deliberate data race in harness code: it proves that the race detector is armed.
func runCanary() {
	x := 0
	var wg sync.WaitGroup
	for g := 0; g < 2; g++ {
		wg.Add(1)
		go func() {
			defer wg.Done()
			for i := 0; i < 1000; i++ {
				x++
			}
		}()
	}
	wg.Wait()
	fmt.Fprintln(os.Stderr, "canary done", x)
}

// ---------------------------------------------------------------------------
// driver

type replayFile struct {
	Property string `json:"property"`
	Entry    string `json:"entry"`
	InputB64 string `json:"input_b64"`
	InputTxt string `json:"input_text"`
	Sig      string `json:"signature"`
	Detail   string `json:"observed"`
	Seed     uint64 `json:"seed"`
	Tier     string `json:"tier"`
	Count    int64  `json:"cases_with_this_signature"`
}

func self() string {
	if *workerBin != "" {
		return *workerBin
	}
	e, err := os.Executable()
	if err != nil {
		return os.Args[0]
	}
	return e
}

// runSingle runs one case in a fresh child process and returns its violations.
// died reports a fatal death (or timeout) of the child.
func runSingle(prop, entry, input string, seed uint64, timeout time.Duration) (viol []mon.Violation, died bool, stderrTail string) {
	runDir := filepath.Join(*verifDir, "run", fmt.Sprintf("case.%d", os.Getpid()))
	os.MkdirAll(runDir, 0o755)
	defer os.Remove(runDir)
	h := sha1.Sum([]byte(prop + "\x00" + entry + "\x00" + input))
	base := filepath.Join(runDir, fmt.Sprintf("case-%s-%x", prop, h[:6]))
	inF, outF, errF := base+".in", base+".json", base+".stderr"
	os.WriteFile(inF, []byte(input), 0o644)
	os.Remove(outF)
	defer os.Remove(inF)
	defer os.Remove(outF)
	defer os.Remove(strings.TrimSuffix(outF, ".json") + ".distinct")
	ef, _ := os.Create(errF)
	cmd := exec.Command(self(), "-mode", "case", "-prop", prop, "-tier", *tier, "-seed", fmt.Sprint(seed), "-entry", entry, "-inputfile", inF, "-out", outF, "-verifdir", *verifDir, "-repo", *repoDir)
	cmd.Stderr = ef
	cmd.Stdout = ef
	if err := cmd.Start(); err != nil {
		ef.Close()
		return nil, true, err.Error()
	}
	done := make(chan error, 1)
	go func() { done <- cmd.Wait() }()
	var err error
	select {
	case err = <-done:
	case <-time.After(timeout):
		cmd.Process.Signal(syscall.SIGQUIT)
		select {
		case <-done:
		case <-time.After(10 * time.Second):
			cmd.Process.Kill()
			<-done
		}
		err = fmt.Errorf("timeout after %s", timeout)
	}
	ef.Close()
	if err != nil {
		b, _ := os.ReadFile(errF)
		s := string(b)
		if len(s) > 1500 {
			s = s[:1500]
		}
		return nil, true, err.Error() + ": " + s
	}
	os.Remove(errF)
	b, rerr := os.ReadFile(outF)
	if rerr != nil {
		return nil, true, "no result file"
	}
	var res mon.Result
	if jerr := json.Unmarshal(b, &res); jerr != nil {
		return nil, true, "bad result file"
	}
	for i := range res.Violations {
		res.Violations[i].Decode()
	}
	return res.Violations, false, ""
}

func writeReplay(v mon.Violation, seed uint64) string {
	dir := filepath.Join(*verifDir, "replay")
	os.MkdirAll(dir, 0o755)
	h := sha1.Sum([]byte(v.Sig + "\x00" + v.Entry + "\x00" + v.Input))
	path := filepath.Join(dir, fmt.Sprintf("%s-%x.json", v.Property, h[:6]))
	rf := replayFile{Property: v.Property, Entry: v.Entry, InputB64: base64.StdEncoding.EncodeToString([]byte(v.Input)), InputTxt: fmt.Sprintf("%q", v.Input), Sig: v.Sig, Detail: v.Detail, Seed: seed, Tier: *tier, Count: v.Count}
	b, _ := json.MarshalIndent(&rf, "", " ")
	os.WriteFile(path, b, 0o644)
	return path
}

func runReplay(seed uint64) int {
	b, err := os.ReadFile(*replayF)
	if err != nil {
		fmt.Println("INCONCLUSIVE reason=cannot read replay file:", err)
		return 2
	}
	var rf replayFile
	if err := json.Unmarshal(b, &rf); err != nil {
		fmt.Println("INCONCLUSIVE reason=bad replay file:", err)
		return 2
	}
	in, _ := base64.StdEncoding.DecodeString(rf.InputB64)
	if rf.Tier != "" {
		*tier = rf.Tier
	}
	viol, died, tail := runSingle(rf.Property, rf.Entry, string(in), rf.Seed, 10*time.Minute)
	fmt.Printf("replay property=%s entry=%s input=%q\n", rf.Property, rf.Entry, string(in))
	if died {
		fmt.Printf("the case kills the process: %s\n", tail)
		fmt.Printf("VIOLATION property=%s replay=%s\n", rf.Property, *replayF)
		return 1
	}
	if len(viol) == 0 {
		fmt.Println("OK: the case no longer violates the property")
		return 0
	}
	for _, v := range viol {
		fmt.Printf("  signature=%s\n  %s\n", v.Sig, v.Detail)
	}
	fmt.Printf("VIOLATION property=%s replay=%s\n", rf.Property, *replayF)
	return 1
}

type shardState struct {
	idx      int
	cmd      *exec.Cmd
	out      string
	journal  string
	stderr   string
	done     atomic.Bool
	err      error
	lastCase uint64
	lastMove time.Time
	killed   string
}

func readCaseNo(path string) uint64 {
	f, err := os.Open(path)
	if err != nil {
		return 0
	}
	defer f.Close()
	var b [8]byte
	if _, err := f.ReadAt(b[:], 0); err != nil {
		return 0
	}
	return binary.LittleEndian.Uint64(b[:])
}

func runDriver(seed uint64) int {
	if *replayF != "" {
		return runReplay(seed)
	}
	start := time.Now()
	p := mon.Registry[*propID]
	if p == nil {
		fmt.Printf("INCONCLUSIVE property=%s reason=unknown property\n", *propID)
		return 2
	}
	kf, err := known.Load(filepath.Join(*verifDir, "KNOWN_FINDINGS.txt"))
	if err != nil {
		fmt.Printf("INCONCLUSIVE property=%s reason=KNOWN_FINDINGS.txt: %v\n", *propID, err)
		return 2
	}
	knowns := kf.For(*propID)
	// a private run directory per invocation, so that concurrent invocations cannot disturb each other
	runDir := filepath.Join(*verifDir, "run", fmt.Sprintf("%s.%d", *propID, os.Getpid()))
	os.MkdirAll(runDir, 0o755)
	defer os.Remove(runDir) // removed when empty, i.e. when every shard finished cleanly

	// 1. replay the witnesses of the known findings
	knownHits := map[int]int64{}
	var knownLines []string
	for i, k := range knowns {
		viol, died, _ := runSingle(*propID, k.Entry, k.Witness, seed, 5*time.Minute)
		still := false
		if !died {
			for _, v := range viol {
				if v.Sig == k.Sig {
					still = true
				}
			}
		}
		if still {
			knownLines = append(knownLines, fmt.Sprintf("KNOWN-FINDING: property=%s sig=%s entry=%s witness=%q :: %s", *propID, k.Sig, k.Entry, k.Witness, k.Desc))
			knownHits[i] = 0
		} else {
			knownLines = append(knownLines, fmt.Sprintf("note: known finding no longer reproduces: property=%s sig=%s witness=%q", *propID, k.Sig, k.Witness))
		}
	}

	// 2. run the shards
	n := *nshards
	shards := make([]*shardState, n)
	var wg sync.WaitGroup
	for i := 0; i < n; i++ {
		st := &shardState{idx: i}
		st.out = filepath.Join(runDir, fmt.Sprintf("%s.%d.json", *propID, i))
		st.journal = filepath.Join(runDir, fmt.Sprintf("%s.%d.journal", *propID, i))
		st.stderr = filepath.Join(runDir, fmt.Sprintf("%s.%d.stderr", *propID, i))
		os.Remove(st.out)
		ef, _ := os.Create(st.stderr)
		cmd := exec.Command(self(), "-mode", "worker", "-prop", *propID, "-tier", *tier, "-seed", fmt.Sprint(seed), "-shard", fmt.Sprint(i), "-nshards", fmt.Sprint(n), "-out", st.out, "-journal", st.journal, "-verifdir", *verifDir, "-repo", *repoDir)
		cmd.Stdout = ef
		cmd.Stderr = ef
		cmd.Env = append(os.Environ(), "GORACE=halt_on_error=0 log_path="+filepath.Join(runDir, fmt.Sprintf("%s.%d.race", *propID, i)))
		st.cmd = cmd
		st.lastMove = time.Now()
		if err := cmd.Start(); err != nil {
			fmt.Printf("INCONCLUSIVE property=%s reason=cannot start worker: %v\n", *propID, err)
			return 2
		}
		shards[i] = st
		wg.Add(1)
		go func(st *shardState, ef *os.File) {
			defer wg.Done()
			st.err = st.cmd.Wait()
			ef.Close()
			st.done.Store(true)
		}(st, ef)
	}
	// watchdog: a shard whose journal does not move for stallLimit is sent SIGQUIT
	stallLimit := 180 * time.Second
	allDone := make(chan struct{})
	go func() { wg.Wait(); close(allDone) }()
loop:
	for {
		select {
		case <-allDone:
			break loop
		case <-time.After(2 * time.Second):
			for _, st := range shards {
				if st.done.Load() || st.killed != "" {
					continue
				}
				cn := readCaseNo(st.journal)
				if cn != st.lastCase {
					st.lastCase = cn
					st.lastMove = time.Now()
				} else if time.Since(st.lastMove) > stallLimit {
					st.killed = "stalled"
					st.cmd.Process.Signal(syscall.SIGQUIT)
					go func(st *shardState) {
						time.Sleep(15 * time.Second)
						if !st.done.Load() {
							st.cmd.Process.Kill()
						}
					}(st)
				}
			}
		}
	}

	// 3. merge
	m := &mon.Merged{Counters: map[string]int64{}, Max: map[string]float64{}, Sets: map[string][]string{}, Exhaustive: map[string]bool{}}
	distinct := map[uint64]struct{}{}
	sets := map[string]map[string]struct{}{}
	violBySig := map[string]int{}
	var fatal []string
	culpritSeen := map[string]string{}
	for _, st := range shards {
		b, rerr := os.ReadFile(st.out)
		if st.err != nil || rerr != nil {
			// fatal death: recover the culprit from the journal and re-run it alone
			_, entry, input, jerr := mon.ReadJournal(st.journal)
			eb, _ := os.ReadFile(st.stderr)
			tail := string(eb)
			if len(tail) > 600 {
				tail = tail[:600]
			}
			if jerr != nil || st.lastCase == 0 && readCaseNo(st.journal) == 0 {
				m.Inconcl = append(m.Inconcl, fmt.Sprintf("shard %d died before its first case: %v %s", st.idx, st.err, tail))
				continue
			}
			// the same culprit from several shards is re-run once
			ck := entry + "\x00" + input
			if prev, ok := culpritSeen[ck]; ok {
				if prev != "" {
					m.Inconcl = append(m.Inconcl, fmt.Sprintf("shard %d: same culprit as another shard (%s)", st.idx, prev))
				}
				continue
			}
			culpritSeen[ck] = ""
			viol, died, dtail := runSingle(*propID, entry, input, seed, 2*time.Minute)
			if died {
				culpritSeen[ck] = "dies or hangs alone"
			}
			switch {
			case died:
				first := strings.SplitN(strings.TrimSpace(dtail), "\n", 2)[0]
				if len(first) > 160 {
					first = first[:160]
				}
				cls := "fatal"
				if st.killed == "stalled" || strings.Contains(dtail, "timeout after") {
					cls = "hang"
				}
				if cls == "hang" && *propID != "C03" {
					m.Inconcl = append(m.Inconcl, fmt.Sprintf("shard %d: case hangs (entry=%s input=%q); hangs are judged by C03", st.idx, entry, input))
					continue
				}
				v := mon.Violation{Property: *propID, Sig: "process-death:" + cls, Entry: entry, Input: input, Detail: "the case kills or hangs the process when run alone in a fresh process: " + first, Count: 1}
				m.Violations = append(m.Violations, v)
				fatal = append(fatal, v.Sig)
			case len(viol) > 0:
				// an ordinary violation that happened to be the last case; keep, and note the death
				for _, v := range viol {
					m.Violations = append(m.Violations, v)
				}
				m.Inconcl = append(m.Inconcl, fmt.Sprintf("shard %d died (%v) but the journalled case does not reproduce the death: %s", st.idx, st.err, tail))
			default:
				m.Inconcl = append(m.Inconcl, fmt.Sprintf("shard %d died (%v) and the journalled case does not reproduce it: %s", st.idx, st.err, tail))
			}
			continue
		}
		var res mon.Result
		if jerr := json.Unmarshal(b, &res); jerr != nil {
			m.Inconcl = append(m.Inconcl, fmt.Sprintf("shard %d: bad result file", st.idx))
			continue
		}
		m.Evals += res.Evals
		for k, v := range res.Counters {
			m.Counters[k] += v
		}
		for k, v := range res.Max {
			if old, ok := m.Max[k]; !ok || v > old {
				m.Max[k] = v
			}
		}
		for k, l := range res.Sets {
			if sets[k] == nil {
				sets[k] = map[string]struct{}{}
			}
			for _, e := range l {
				sets[k][e] = struct{}{}
			}
		}
		for k, v := range res.Exhaustive {
			if v {
				m.Exhaustive[k] = true
			}
		}
		if len(m.Samples) < 16 {
			for _, s := range res.Samples {
				if len(m.Samples) < 16 {
					m.Samples = append(m.Samples, s)
				}
			}
		}
		m.Inconcl = append(m.Inconcl, res.Inconclusive...)
		m.Notes = append(m.Notes, res.Notes...)
		for _, v := range res.Violations {
			v.Decode()
			// violations covered by a known finding are counted and dropped BEFORE same-signature violations are merged
			// (an input-identified finding must not absorb other inputs with the same signature)
			covered := false
			for i, k := range knowns {
				if _, live := knownHits[i]; live && k.Match(v.Sig, v.Entry, v.Input) {
					knownHits[i] += v.Count
					covered = true
					break
				}
			}
			if covered {
				continue
			}
			key := v.Sig
			if i, ok := violBySig[key]; ok && !strings.Contains(v.Sig, "\x00") {
				m.Violations[i].Count += v.Count
				if len(v.Input) < len(m.Violations[i].Input) {
					m.Violations[i].Input, m.Violations[i].Entry, m.Violations[i].Detail = v.Input, v.Entry, v.Detail
				}
				continue
			}
			violBySig[key] = len(m.Violations)
			m.Violations = append(m.Violations, v)
		}
		if db, err := os.ReadFile(res.DistinctFile); err == nil {
			for i := 0; i+8 <= len(db); i += 8 {
				distinct[binary.LittleEndian.Uint64(db[i:])] = struct{}{}
			}
			os.Remove(res.DistinctFile)
		}
		os.Remove(st.out)
		os.Remove(st.journal)
		os.Remove(st.stderr)
	}
	for k, s := range sets {
		var l []string
		for e := range s {
			l = append(l, e)
		}
		sort.Strings(l)
		m.Sets[k] = l
	}
	m.Distinct = int64(len(distinct)) + m.Counters["distinct_enum"] + m.Counters["distinct_enum_accepted"]

	// race reports (C18)
	raceReports := 0
	raceFiles, _ := filepath.Glob(filepath.Join(runDir, *propID+".*.race.*"))
	var raceSample string
	for _, rf := range raceFiles {
		b, _ := os.ReadFile(rf)
		cnt := strings.Count(string(b), "WARNING: DATA RACE")
		raceReports += cnt
		if cnt > 0 && raceSample == "" {
			raceSample = string(b)
			if len(raceSample) > 3000 {
				raceSample = raceSample[:3000]
			}
		}
		os.Remove(rf)
	}
	// values that every shard (a fresh process each) must agree on
	for k, l := range m.Sets {
		if strings.HasPrefix(k, "agree:") && len(l) != 1 {
			m.Violations = append(m.Violations, mon.Violation{Property: *propID, Sig: "c18:fresh-process-differs:" + k, Entry: "process", Input: "", Detail: fmt.Sprintf("fresh processes computed different values for %s: %v", k, l), Count: 1})
		}
	}
	if p.Race {
		// canary: a deliberate race in harness code must be reported by this binary
		canaryLog := filepath.Join(runDir, *propID+".canary")
		cc := exec.Command(self(), "-mode", "canary")
		cc.Env = append(os.Environ(), "GORACE=halt_on_error=0 log_path="+canaryLog)
		cc.Run()
		fired := false
		cfs, _ := filepath.Glob(canaryLog + ".*")
		for _, f := range cfs {
			b, _ := os.ReadFile(f)
			if strings.Contains(string(b), "WARNING: DATA RACE") {
				fired = true
			}
			os.Remove(f)
		}
		if fired {
			m.Counters["race_canary_fired"] = 1
		} else {
			m.Inconcl = append(m.Inconcl, "race detector canary did not fire: the worker is not built with -race")
		}
		m.Counters["race_reports"] = int64(raceReports)
		if raceReports > 0 {
			m.Violations = append(m.Violations, mon.Violation{Property: *propID, Sig: "c18:data-race", Entry: "concurrent", Input: "", Detail: raceSample, Count: int64(raceReports)})
		}
	}

	// 4. known findings filter
	var fresh []mon.Violation
	for _, v := range m.Violations {
		matched := false
		for i, k := range knowns {
			if k.Match(v.Sig, v.Entry, v.Input) {
				if _, ok := knownHits[i]; ok {
					knownHits[i] += v.Count
					matched = true
					break
				}
			}
		}
		if !matched {
			fresh = append(fresh, v)
		}
	}
	sort.Slice(fresh, func(i, j int) bool { return fresh[i].Sig < fresh[j].Sig })

	// 5. floors
	var floors []string
	if p.Floors != nil && len(fresh) == 0 {
		floors = p.Floors(m)
	}
	if m.Distinct < 2 {
		floors = append(floors, "fewer than 2 distinct non-trivial cases")
	}

	// 6. evidence
	wall := time.Since(start).Seconds()
	cov := map[string]any{
		"evaluations":          m.Evals,
		"distinct_nontrivial":  m.Distinct,
		"rule":                 p.Rule,
		"samples":              m.Samples,
		"counters":             m.Counters,
		"max":                  m.Max,
		"sets":                 m.Sets,
		"exhaustive_subspaces": m.Exhaustive,
		"exhaustive":           false,
		"hooks":                hooksState(),
		"shards":               n,
		"notes":                m.Notes,
		"bounds":               "generated / mutated inputs <= 16 KiB, nesting depth <= 512 (C07 prefix towers <= 12000); flat families (wide lists, long statement lists, long operator chains, long tokens, many-line texts) up to about 1 MiB",
	}
	kh := map[string]int64{}
	for i, k := range knowns {
		if cnt, ok := knownHits[i]; ok {
			kh[k.Sig] += cnt
		}
	}
	cov["known_hits"] = kh
	if len(m.Inconcl) > 0 {
		cov["inconclusive"] = m.Inconcl
	}
	if len(floors) > 0 {
		cov["floors_missed"] = floors
	}
	if len(m.Samples) == 0 {
		cov["samples"] = []mon.Sample{{Entry: "-", Input: "-", Note: "no sample recorded"}}
	}
	ev := map[string]any{
		"property_id": *propID,
		"tier":        *tier,
		"seed":        seed,
		"level":       "exploration",
		"coverage":    cov,
		"assumptions": p.Assumptions,
		"wall_s":      wall,
		"violations":  len(fresh),
	}
	evDir := filepath.Join(*verifDir, "evidence")
	if *repoDir != "/repo" {
		// self-tests against a scratch copy must not overwrite the evidence of the real tree
		evDir = filepath.Join(*verifDir, "run", "scratch-evidence")
	}
	os.MkdirAll(evDir, 0o755)
	eb, _ := json.MarshalIndent(ev, "", " ")
	os.WriteFile(filepath.Join(evDir, *propID+".json"), eb, 0o644)

	// 7. verdict
	for _, l := range knownLines {
		fmt.Println(l)
	}
	if len(fresh) > 0 {
		for _, v := range fresh {
			path := writeReplay(v, seed)
			fmt.Printf("  signature=%s entry=%s cases=%d input=%q\n    %s\n", v.Sig, v.Entry, v.Count, clip(v.Input, 200), clip(v.Detail, 600))
			fmt.Printf("VIOLATION property=%s replay=%s\n", *propID, path)
		}
		return 1
	}
	if len(m.Inconcl) > 0 || len(floors) > 0 {
		fmt.Printf("INCONCLUSIVE property=%s reason=%s\n", *propID, clip(strings.Join(append(m.Inconcl, floors...), "; "), 800))
		return 2
	}
	fmt.Printf("OK property=%s tier=%s seed=%d evaluations=%d distinct_nontrivial=%d hooks=%s wall=%.1fs\n", *propID, *tier, seed, m.Evals, m.Distinct, hooksState(), wall)
	return 0
}

func hooksState() string {
	if *hooksNote != "" {
		return *hooksNote
	}
	if mon.HooksEnabled() {
		return "on"
	}
	return "unavailable"
}

func clip(s string, n int) string {
	if len(s) > n {
		return s[:n] + "…"
	}
	return s
}
