module verif

go 1.23.0

require (
	github.com/cloudspannerecosystem/memefish v0.0.0
	github.com/google/go-cmp v0.6.0
)

replace github.com/cloudspannerecosystem/memefish => /repo
